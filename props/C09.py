from fsv import Query, table_info

EXPLANATION = ('router-only operator sequences: graph G1 processes call A (symbolic elevation A, concrete base levels / mask / exponent A) and then call B, a fresh graph G2 '
               'processes call B only; every table the routers write (receivers, counts, distances, weights, donors) must be bit-identical, and the elevation array handed to the '
               'router must be unchanged.  Real flow_graph_impl (base levels unordered_set, mask, neighbours cache), real routers; symbolic 2N elevations')
ASSUMPTIONS = ['ONLY sequences made of one router (single sequential / block-wise, multiple direction with an exponent change): sink resolvers (whose cached basin graph and hash-set iteration order are the '
               'interesting history carriers) are beyond the encoder, so the property is decided for this sub-family only',
               'traversal orders, accumulate and basins are functions of the compared tables and are not re-compared (their computation is cut, see C04)',
               'base levels, masks, exponents of the two calls concrete per query; history length 2']


def queries(tier, kfs):
    qs = []
    cfg = [  # n, looped, multi, threads, BLA, BLB, MASKA, MASKB, PA, PB
        (4, 0, 0, 0, 0b1001, 0b0001, -1, -1, 1, 1), (4, 0, 0, 0, 0b1111, 0b1001, 0b0110, -1, 1, 1), (4, 1, 0, 2, 0b0001, 0b0100, -1, 0b0010, 1, 1),
        (3, 0, 1, 0, 0b101, 0b100, -1, -1, 0, 1), (3, 1, 1, 0, 0b001, 0b001, 0b100, -1, 1, 0)]
    if tier != 'quick':
        cfg += [(4, 0, 1, 0, 0b1001, 0b1000, -1, -1, 0, 1), (4, 0, 1, 0, 0b0110, 0b1001, -1, -1, 1, 1), (5, 0, 0, 3, 0b10001, 0b00100, -1, 0b01000, 1, 1), (6, 0, 0, 0, 0b100001, 0b000001, 0b001100, -1, 1, 1)]
    for (n, looped, multi, thr, bla, blb, ma, mb, pa, pb) in cfg:
        hd = dict(N=n, D=2, GRID=0, MULTI=multi, THREADS=thr, BLA=bla, BLB=blb, MASKA=ma, MASKB=mb, PA=pa, PB=pb, SPACING='3.0')
        if looped:
            hd['LOOPED'] = 1
        qs.append(Query('profile%d%s.%s.t%d.blA%x.blB%x.mA%d.mB%d.p%d%d' % (n, 'L' if looped else '', 'multi' if multi else 'single', thr, bla, blb, ma, mb, pa, pb),
                        'router.cpp', 'c09.c', dict(FSV_GRID=0, FSV_N=n, FSV_D=2), hd, unwind=max(16, 3 * n + 3), solver='race', timeout=1200 if tier == 'quick' else 7200,
                        bounds=dict(grid='profile_grid (real)', N=n, looped=looped, router='multi' if multi else 'single', threads=thr, BL_A=bla, BL_B=blb, mask_A=ma, mask_B=mb, p_A=pa, p_B=pb)))
    tabs = ['raster_rook_2x2_fixed', 'mesh_quad4'] + ([] if tier == 'quick' else ['raster_rook_2x3_hloop', 'raster_queen_2x2_bloop'])
    for t in tabs:
        n, d = table_info(t)
        for multi in (0, 1):
            hd = dict(N=n, D=d, GRID=1, TABLE='"%s.h"' % t, MULTI=multi, THREADS=0, BLA=(1 << n) - 1, BLB=1, MASKA=-1, MASKB=1 << (n - 1), PA=0, PB=1)
            qs.append(Query('%s.%s' % (t, 'multi' if multi else 'single'), 'router.cpp', 'c09.c', dict(FSV_GRID=1, FSV_N=n, FSV_D=d), hd,
                            unwind=max(16, n * (d + 1) + 3), solver='race', timeout=1200 if tier == 'quick' else 7200,
                            bounds=dict(grid='table:' + t, router='multi' if multi else 'single')))
    return qs
