from fsv import Query

EXPLANATION = ('cbmc bounds / pointer / division-by-zero / shift instrumentation over the translated real code of the units used by the other checks '
               '(node iterators, routers sequential and block-wise, worker-pool partition, eroder parameter setters); failures are confirmed by replaying the '
               'counter-example against the real code under ASan+UBSan')
ASSUMPTIONS = ['memory-safety classes decided: out-of-bounds and freed/dead object accesses, null dereference, division by zero, oversized shifts; '
               'NOT decided: use-after-scope through references to temporaries (allocas are function-scoped in the translation), uninitialised reads, signed overflow (IR nsw flags not instrumented), data races',
               'inputs are those of the other properties\' harnesses inside their bounds']
KF = 'KF-C08-iterator-filter-past-end'


def queries(tier, kfs):
    qs = []
    kw = dict(safety=True, want='safety', timeout=900 if tier == 'quick' else 3600)
    rk = dict(solver='cadical', extra=['--slice-formula'])   # memory-safety obligations do not depend on the floating-point values
    # node iterators (real profile grid)
    for (l, r, f, d) in ((1, 1, 1, 0), (1, 1, 0, 1), (0, 2, 2, 0), (3, 3, 3, 1), (1, 0, 255, 0), (0, 0, 1, 1)):
        qs.append(Query('iter.l%d.r%d.f%d.d%d' % (l, r, f, d), 'iter.cpp', 'c17_iter.c', dict(FSV_N=4), dict(N=4, LEFT=l, RIGHT=r, FILTER=f, DIR=d, BASE=0),
                        unwind=16, solver='cadical', diff=0, bounds=dict(unit='node iteration', left=l, right=r, filter=f, reverse=d), **kw))
    # routers (symbolic elevations)
    for (n, bl, mk, thr) in ((4, 0b1001, None, 0), (4, 0b0100, 0b0010, 3), (3, 0, None, 2), (3, 0b001, None, 4)):   # last: fewer nodes than workers
        hd = dict(N=n, D=2, GRID=0, BLMASK=bl, USE_MASK=0 if mk is None else 1, SPACING='3.0', THREADS=thr)
        if mk is not None:
            hd['MASKBITS'] = mk
        qs.append(Query('single_router.profile%d.bl%x.t%d' % (n, bl, thr), 'router.cpp', 'c04.c', dict(FSV_GRID=0, FSV_N=n, FSV_D=2, FSV_CACHE=1), hd,
                        unwind=16, diff=0, bounds=dict(unit='single_flow_router', N=n, BL=bl, mask=mk, threads=thr), **rk, **kw))
    for t in ('raster_rook_2x2_fixed',) + (() if tier == 'quick' else ('raster_rook_2x3_hloop', 'raster_queen_2x2_bloop', 'mesh_quad4')):
        from fsv import table_info
        n, d = table_info(t)
        qs.append(Query('single_router.%s' % t, 'router.cpp', 'c04.c', dict(FSV_GRID=1, FSV_N=n, FSV_D=d, FSV_CACHE=1),
                        dict(N=n, D=d, GRID=1, BLMASK=1, USE_MASK=0, TABLE='"%s.h"' % t, THREADS=0), unwind=max(16, n * (d + 1) + 3), diff=0,
                        bounds=dict(unit='single_flow_router', table=t), **rk, **kw))
        if tier != 'quick':
          qs.append(Query('multi_router.%s' % t, 'router.cpp', 'c05.c', dict(FSV_GRID=1, FSV_N=n, FSV_D=d),
                        dict(N=n, D=d, GRID=1, BLMASK=1, USE_MASK=0, TABLE='"%s.h"' % t, PEXP=1, ROUNDS=1, NO_WEIGHTS=1), unwind=max(16, n * (d + 1) + 3), diff=0,
                        bounds=dict(unit='multi_flow_router', table=t), **rk, **kw))
    # worker-pool partition arithmetic and eroder setter
    for p in (1, 4, 16):
        qs.append(Query('blocks.pool%d' % p, 'pool_blocks.cpp', 'c11_blocks.c', {}, dict(POOL=p, RANGE=4096, MINMAX=8192), unwind=18, solver='cadical', shim=False,
                        diff=0, bounds=dict(unit='thread_pool::blocks', pool=p), **kw))
    qs.append(Query('spl.set_slope_exp', 'spl.cpp', 'c13_linear.c', dict(FSV_N=3, FSV_D=2, FSV_SINGLE=1), dict(SINGLE=1), unwind=16, diff=0,
                    bounds=dict(unit='spl_eroder::set_slope_exp'), **kw))
    return qs
