from fsv import Query, table_info
import importlib.util, os
_spec = importlib.util.spec_from_file_location('c04spec', os.path.join(os.path.dirname(__file__), 'C04.py'))
c04 = importlib.util.module_from_spec(_spec); _spec.loader.exec_module(c04)

EXPLANATION = ('multi_flow_router::apply (flow_router.hpp) executed symbolically on real profile grids and on table grids dumped from '
               'the real raster/mesh classes; elevations symbolic binary64; exponent 0 / 1 exact (C standard), 2 through a contract-constrained pow stub')
ASSUMPTIONS = ['base-level sets, masks, tables and the slope exponent are concrete per query; elevations finite',
               'CUT: the traversal-order computations that the router calls at its end are replaced by no-ops (decided in C06); every table the router writes is the real flow_graph_impl\'s',
               'pow(x,0)=1 and pow(x,1)=x exactly (C standard / IEEE 754-2019 9.2.1); other exponents: nondeterministic stub constrained by its contract (rt/rt_model.h)',
               'the "weights sum to one" clause is decided only as: every weight equals slope^p / sum(slope^p) in the library\'s summation order, is finite and lies in [0,1] (the rounding bound on the sum is an error-analysis statement, not encoded)']
KF = 'KF-C05-degenerate-sum'


def queries(tier, kfs):
    qs = []
    open_kf = kfs.get(KF, {}).get('status') == 'open'
    quick = tier == 'quick'

    def add(qid, ud, hd, unwind, bounds, timeout=900):
        unwind = max(unwind, 16)
        # structural clauses (receiver set, counts, distances, self receivers): binary64, SAT with formula slicing
        qs.append(Query(qid + '.struct', 'router.cpp', 'c05.c', ud, dict(hd, NO_WEIGHTS=1), unwind=unwind, bounds=bounds, timeout=timeout,
                        solver='cadical', extra=['--slice-formula']))
        # known finding (NaN weights): demonstrated by a counter-example that the native replay must place in the class
        if open_kf and len([q for q in qs if q.expect == 'finding']) < 1 and hd.get('PEXP') == 1 and hd.get('ROUNDS') == 1:
            qs.append(Query(qid + '.kf', 'router.cpp', 'c05.c', ud, dict(hd, NAN_ONLY=1), unwind=unwind, bounds=bounds, timeout=timeout,
                            expect='finding', kf=KF, kf_marker='CLASS degenerate-sum', diff=0))

    prof = [(3, 0, 0b101, None, 1, 1), (3, 1, 0, None, 1, 1), (4, 0, 0b1001, None, 1, 1), (4, 1, 0b0001, 0b0100, 0, 1),
            (3, 1, 0b001, None, 1, 2), (4, 0, 0b1001, None, 0, 2), (4, 1, 0b0001, None, 1, 20)]
    if not quick:
        prof += [(4, 0, 0b1000, None, 2, 1), (5, 0, 0b10001, None, 1, 1), (5, 1, 0, 0b00100, 1, 1), (5, 0, 0b00001, None, 2, 1), (4, 1, 0, None, 2, 2), (6, 0, 0b100001, None, 1, 1)]
    for (n, looped, bl, mk, pexp, rounds) in prof:
        hd = dict(N=n, D=2, GRID=0, BLMASK=bl, USE_MASK=0 if mk is None else 1, SPACING='3.0', PEXP=pexp, ROUNDS=min(rounds, 2))
        if rounds == 20:
            hd['P1EXP'] = 0   # first round with exponent 0, second with another exponent
        if mk is not None:
            hd['MASKBITS'] = mk
        if looped:
            hd['LOOPED'] = 1
        add('profile%d%s.bl%x.m%s.p%d.r%d' % (n, 'L' if looped else '', bl, 'x' if mk is None else '%x' % mk, pexp, rounds),
            dict(FSV_GRID=0, FSV_N=n, FSV_D=2), hd, 3 * n + 3,
            dict(grid='profile_grid (real)', N=n, looped=looped, BL=bl, mask=mk, exponent=pexp, rounds=rounds))
    tabs = ['raster_rook_2x2_fixed', 'raster_rook_2x3_hloop', 'raster_queen_2x3_fixed', 'mesh_quad4']
    if not quick:
        tabs += ['raster_rook_3x3_fixed', 'raster_queen_3x3_fixed', 'raster_bishop_3x3_fixed', 'mesh_fan5', 'raster_queen_2x2_bloop']
    for t in tabs:
        n, d = table_info(t)
        sm = c04.status_mask(t)
        for bl, mk, pexp in ((sm, None, 1), (1 << (n // 2), 1 << (n - 1), 1)) + (() if quick else (((sm, None, 2),) if d <= 4 else ()) + ((0, None, 0),)):
            hd = dict(N=n, D=d, GRID=1, BLMASK=bl, USE_MASK=0 if mk is None else 1, TABLE='"%s.h"' % t, PEXP=pexp, ROUNDS=1)
            if mk is not None:
                hd['MASKBITS'] = mk
            add('%s.bl%x.m%s.p%d' % (t, bl, 'x' if mk is None else '%x' % mk, pexp), dict(FSV_GRID=1, FSV_N=n, FSV_D=d), hd, n * (d + 1) + 3,
                dict(grid='table:' + t, N=n, D=d, BL=bl, mask=mk, exponent=pexp), timeout=900 if quick else 3600)
    return qs
