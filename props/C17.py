from fsv import Query

EXPLANATION = ('grid<G>::nodes_indices(status) / grid_node_index_iterator (forward and reverse) and the default base-level seeding of the flow graph '
               'constructor, executed on real profile_grid objects for every border status combination and every filter; profile_boundary_status rejection of asymmetric looped borders (throw model)')
ASSUMPTIONS = ['all inputs of this check are enumerated concretely per query (border statuses 4x4, filter 5 values, direction); the solver discharges the '
               'assertions over the symbolic execution of the real code but there is no symbolic input: it is an exhaustive enumeration of a finite space through the encoder',
               'raster-grid corner precedence, per-node override maps and the mesh are NOT covered by this check (std::map with symbolic keys did not fit the encoder budget)']


def queries(tier, kfs):
    qs = []
    ns = (4,) if tier == 'quick' else (3, 4, 5)
    for n in ns:
        for left in range(4):
            for right in range(4):
                bad = (left == 3) != (right == 3)
                filters = (255, 0, 1, 2, 3) if not bad else (255,)
                if tier == 'quick' and (left, right) not in ((1, 1), (0, 1), (2, 0), (3, 3), (3, 1), (1, 2), (0, 0)):
                    continue
                for f in filters:
                    for d in (0, 1):
                        if tier == 'quick' and d == 1 and f not in (255, 0, 1):
                            continue
                        qs.append(Query('profile%d.l%d.r%d.f%d.d%d' % (n, left, right, f, d), 'iter.cpp', 'c17_iter.c', dict(FSV_N=n),
                                        dict(N=n, LEFT=left, RIGHT=right, FILTER=f, DIR=d, BASE=0), unwind=16, solver='cadical', timeout=600,
                                        bounds=dict(grid='profile_grid', N=n, left=left, right=right, filter=f, reverse=d), diff=20))
    return qs
