from fsv import Query

EXPLANATION = ('flow_operator_impl<FG, flow_snapshot>::_save (graph and elevation) executed symbolically: every entry of every table of the source graph is a '
               'symbolic value; the snapshot graph implementation must expose the same receivers, counts, distances, weights, donors (all columns), '
               'depth-first and breadth-first orders and levels, mask and base levels; the elevation snapshot must equal the elevation')
ASSUMPTIONS = ['only the copy step is decided: that a snapshot equals the state of "a graph running only that prefix" then follows because the operators before the snapshot are the same code on the same input; '
               'refusal of mutating calls on snapshot graphs (flow_graph::m_writeable) and replacement at the next update are NOT decided (flow_graph with an operator sequence is beyond the encoder)',
               'graph size N, table width D and the number of breadth-first levels are concrete per query; table contents symbolic']
KF = 'KF-C16-partial-copy'


def queries(tier, kfs):
    qs = []
    open_kf = kfs.get(KF, {}).get('status') == 'open'
    cfgs = [(3, 2, 1, 3, 0, 0b001, 1), (4, 2, 1, 3, 1, 0b1001, 1), (4, 2, 0, 2, 1, 0b0001, 2), (3, 2, 0, 4, 0, 0, 1), (3, 2, 1, 2, 1, 0b100, 2)]
    if tier != 'quick':
        cfgs += [(5, 3, 1, 4, 1, 0b10001, 1), (5, 3, 0, 3, 1, 0b00100, 2), (6, 2, 1, 5, 0, 0b100001, 1)]
    for (n, d, single, nlev, um, bl, rounds) in cfgs:
        base = dict(N=n, D=d, SINGLE=single, NLEV=nlev, USE_MASK=um, BLMASK=bl, ROUNDS=rounds)
        ud = dict(FSV_N=n, FSV_D=d, FSV_SINGLE=single)
        qid = 'save.N%d.D%d.%s.lev%d.m%d.bl%x.r%d' % (n, d, 'single' if single else 'multi', nlev, um, bl, rounds)
        b = dict(N=n, D=d, direction='single' if single else 'multi', levels=nlev, mask='symbolic' if um else 'none', BL=bl, saves=rounds)
        kw = dict(unwind=max(16, n * (d + 1) + 3), solver='cadical', timeout=900, bounds=b)
        if open_kf:
            qs.append(Query(qid + '.excl', 'snapshot.cpp', 'c16.c', ud, dict(base, EXCL_KF=1), **kw))
            if len([q for q in qs if q.expect == 'finding']) < 2:
                qs.append(Query(qid + '.kf', 'snapshot.cpp', 'c16.c', ud, base, expect='finding', kf=KF, diff=0, **kw))
        else:
            qs.append(Query(qid, 'snapshot.cpp', 'c16.c', ud, base, **kw))
    return qs
