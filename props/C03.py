from fsv import Query

EXPLANATION = ('flow_graph_impl::accumulate (both templates x array / scalar source = the four public overloads) executed on concrete graph structures '
               'with symbolic source, cell areas (table grid) and partition weights; the result is compared bit for bit with the top-down recurrence '
               'acc_i = area_i*src_i + sum_d acc_d*w(d->i) evaluated in the traversal order (cvc5 shares the identical binary64 terms)')
ASSUMPTIONS = ['graph structure (receivers, counts, bottom-up order) is concrete per query (6 structures: chains, trees, two outlets, DAGs with 2 and 3 receivers); source, areas >= 0 and weights are symbolic finite binary64',
               'the recurrence is stated in the same evaluation order as the library sweeps (the order is fixed by the bottom-up traversal, which is part of the graph state); '
               'the conservation clause (sum over terminal nodes) and the lower bound are consequences in exact arithmetic and are NOT decided in binary64',
               'stale content of the in-place output array (filled with 7.0 by the unit) must not leak']


def queries(tier, kfs):
    qs = []
    structs = [(1, 3, 2, 1), (2, 4, 2, 1), (3, 4, 2, 0), (4, 4, 2, 1), (5, 5, 2, 0), (6, 5, 3, 0)]
    for (sid, n, d, single) in structs:
        for which in range(4):
            if tier == 'quick' and sid in (1, 4) and which in (1, 3):
                continue
            qs.append(Query('struct%d.%s.overload%d' % (sid, 'single' if single else 'multi', which), 'graph.cpp', 'c03.c',
                            dict(FSV_N=n, FSV_D=d, FSV_SINGLE=single), dict(N=n, D=d, SINGLE=single, STRUCT=sid, WHICH=which),
                            unwind=max(16, n * (d + 1) + 3), solver='race', timeout=900,
                            bounds=dict(N=n, D=d, structure=sid, direction='single' if single else 'multi',
                                        overload=['in-place array', 'returning array', 'in-place scalar', 'returning scalar'][which])))
    return qs
