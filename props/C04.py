from fsv import Query, table_info

EXPLANATION = ('single_flow_router::apply_seq (flow_router.hpp) and the grid<G> neighbour accessors (grid/base.hpp) executed '
               'symbolically on real profile grids and on table grids dumped from the real raster/mesh classes; elevations are '
               'symbolic binary64 values, base-level sets / masks / tables are concrete per query')
ASSUMPTIONS = ['base-level sets, masks and adjacency tables are concrete per query (enumerated by the runner); elevations finite',
               'table grid: the derived part of the grid (adjacency/distance tables) is harness code reading tables dumped from the real '
               'grid classes on this run; the grid<G> base class, cache and iterators are the library\'s']


def bl_sets(n, status_mask, tier):
    s = [status_mask, 0, 1 << (n // 2), ((1 << n) - 1) & ~(1 << (n // 2))]
    if tier == 'thorough':
        s += [1, 1 << (n - 1), 0b101 & ((1 << n) - 1), (1 << n) - 1]
    out = []
    for x in s:
        if x not in out:
            out.append(x)
    return out


def masks(n, tier):
    m = [None, 1 << (n - 1), 0b10 | (1 << (n // 2))]
    if tier == 'thorough':
        m += [1, (1 << n) - 2, 0b110]
    out = []
    for x in m:
        if x not in out:
            out.append(x)
    return out


def status_mask(table):
    import os, re, fsv
    t = open(os.path.join(fsv.tables_dir(), table + '.h')).read()
    st = re.search(r'T_status\[\d+\] = \{([\d,]*)\}', t).group(1).strip(',').split(',')
    return sum(1 << i for i, v in enumerate(st) if v == '1')


def queries(tier, kfs):
    qs = []
    tiny_open = kfs.get('KF-C04-tiny-slope', {}).get('status') == 'open'
    quick = tier == 'quick'

    def add(qid, ud, hd, unwind, bounds, timeout=900):
        unwind = max(unwind, 16)
        if tiny_open:
            qs.append(Query(qid + '.excl', 'router.cpp', 'c04.c', ud, dict(hd, EXCL_TINY=1), unwind=unwind, bounds=bounds, timeout=timeout))
            if len([q for q in qs if q.expect == 'finding']) < 2:
                qs.append(Query(qid + '.kf', 'router.cpp', 'c04.c', ud, hd, unwind=unwind, bounds=bounds, timeout=timeout,
                                expect='finding', kf='KF-C04-tiny-slope', diff=0))
        else:
            qs.append(Query(qid, 'router.cpp', 'c04.c', ud, hd, unwind=unwind, bounds=bounds, timeout=timeout, solver='race'))

    # arithmetic lemma assumed by the harness (sign of the slope follows the elevation order), all finite a, b, d > 0
    qs.append(Query('lemma_slope.symbolic_d', 'lemma.cpp', 'lemma_slope.c', {}, {}, unwind=4, bounds=dict(a='any finite', b='any finite', d='any finite > 0')))
    qs.append(Query('lemma_slope.d_sqrt5', 'lemma.cpp', 'lemma_slope.c', {}, dict(DCONST='0x1.1e3779b97f4a8p+1'), unwind=4, bounds=dict(d='sqrt(5)')))

    # real profile grids (grid construction included in the encoding)
    prof = []
    if quick:
        for n, looped in ((3, 0), (3, 1), (4, 0), (4, 1)):
            sm = 0 if looped else (1 | 1 << (n - 1))
            prof += [(n, looped, 1, sm, None, '3.0'), (n, looped, 1, 0, 1 << (n - 1), '3.0')]
        prof += [(4, 0, 0, 0b1001, None, '1.0'), (4, 1, 0, 0b0100, 0b0010, '0.3')]
    else:
        for n in (3, 4, 5, 6):
            for looped in (0, 1):
                for cache in ((1, 0) if n == 4 else (1,)):
                    sm = 0 if looped else (1 | 1 << (n - 1))
                    for bl in bl_sets(n, sm, tier)[:3]:
                        for mk in masks(n, tier)[:2]:
                            prof.append((n, looped, cache, bl, mk, '3.0' if (bl + (mk or 0)) % 2 else '0.7'))
    prof = [p + (0,) for p in prof]
    # apply_par path (blocks executed one after the other): must equal the sequential semantics
    prof += [(4, 0, 1, 0b1001, None, '3.0', 2), (4, 0, 1, 0b0100, 0b0010, '3.0', 3), (3, 0, 1, 0, None, '3.0', 2), (4, 1, 1, 0b0001, 0b0100, '3.0', 4),
             (3, 0, 1, 0b001, None, '3.0', 4)]   # fewer nodes than workers
    if not quick:
        prof += [(5, 0, 1, 0b00010, None, '0.7', 2), (6, 0, 0, 0b100000, 0b000100, '3.0', 3), (4, 1, 0, 0, None, '0.7', 16)]
    for (n, looped, cache, bl, mk, sp, thr) in prof:
        hd = dict(N=n, D=2, GRID=0, BLMASK=bl, USE_MASK=0 if mk is None else 1, SPACING=sp, THREADS=thr)
        if mk is not None:
            hd['MASKBITS'] = mk
        if looped:
            hd['LOOPED'] = 1
        ud = dict(FSV_GRID=0, FSV_N=n, FSV_D=2, FSV_CACHE=cache)
        add('profile%d%s.c%d.bl%x.m%s.s%s.t%d' % (n, 'L' if looped else '', cache, bl, 'x' if mk is None else '%x' % mk, sp, thr),
            ud, hd, 3 * n + 3, dict(grid='profile_grid (real)', N=n, looped=looped, cache=cache, BL=bl, mask=mk, spacing=sp, threads=thr))
    # table grids dumped from the real raster / mesh classes
    tabs = ['raster_rook_2x2_fixed', 'raster_rook_2x3_hloop', 'raster_queen_2x2_fixed', 'mesh_quad4']
    if not quick:
        tabs += ['raster_bishop_2x3_fixed', 'raster_rook_3x3_fixed', 'raster_bishop_3x3_fixed', 'mesh_fan5',
                 'raster_rook_3x2_vloop', 'raster_queen_2x2_bloop', 'raster_rook_2x4_fixed', 'mesh_strip6']
    for t in tabs:
        n, d = table_info(t)
        sm = status_mask(t)
        combos = ([(sm, None, 0), (1 << (n // 2), 1 << (n - 1), 0), (1 << (n - 1), 1, 2)] if n <= 4 else [(sm, None, 0), (1 << (n // 2), 1 << (n - 1), 2)]) if quick else \
            [(bl, mk, (bl + (mk or 0)) % 3) for bl in bl_sets(n, sm, tier)[:3] for mk in masks(n, tier)[:2]]
        for bl, mk, thr in combos:
            hd = dict(N=n, D=d, GRID=1, BLMASK=bl, USE_MASK=0 if mk is None else 1, TABLE='"%s.h"' % t, THREADS=thr)
            if mk is not None:
                hd['MASKBITS'] = mk
            ud = dict(FSV_GRID=1, FSV_N=n, FSV_D=d, FSV_CACHE=1)
            add('%s.bl%x.m%s.t%d' % (t, bl, 'x' if mk is None else '%x' % mk, thr), ud, hd, n * (d + 1) + 3,
                dict(grid='table:' + t, N=n, D=d, BL=bl, mask=mk, threads=thr), timeout=900 if quick else 3600)
    if not quick:
        # larger tables, one query per node (cone of influence: at most D slope divisions per query)
        for t, cfgs in (('raster_queen_3x3_fixed', 1), ('raster_queen_2x3_fixed', 2), ('raster_rook_3x3_bloop', 2), ('raster_rook_3x4_hloop', 2), ('raster_bishop_3x3_hloop', 1)):
            n, d = table_info(t)
            sm = status_mask(t)
            for bl, mk, thr in ((0, None, 0), (sm, 1 << (n // 2), 2))[:cfgs]:
                for node in range(n):
                    if (bl >> node) & 1 or (mk is not None and (mk >> node) & 1):
                        continue
                    if t == 'raster_queen_3x3_fixed' and node not in (0, 1, 3, 5, 8):
                        continue   # nodes 2, 4, 6, 7: no verdict within 2 h per query (8 divisions by sqrt(5), 1, 2); measured, see DESIGN.md
                    hd = dict(N=n, D=d, GRID=1, BLMASK=bl, USE_MASK=0 if mk is None else 1, TABLE='"%s.h"' % t, THREADS=thr, ONLY_NODE=node)
                    if mk is not None:
                        hd['MASKBITS'] = mk
                    add('%s.bl%x.m%s.t%d.node%d' % (t, bl, 'x' if mk is None else '%x' % mk, thr, node), dict(FSV_GRID=1, FSV_N=n, FSV_D=d, FSV_CACHE=1), hd,
                        n * (d + 1) + 3, dict(grid='table:' + t, N=n, D=d, BL=bl, mask=mk, threads=thr, node=node), timeout=7200)
    if quick:
        # the every-change tier keeps one query per kind of configuration (about half); the rest runs in the thorough tier
        keep = ('lemma', 'profile3.c1.bl5.mx', 'profile3L.c1.bl0.m4', 'profile4.c1.bl9.mx', 'profile4.c1.bl0.m8', 'profile4L.c1.bl0.mx', 'profile4.c0', 'profile4L.c0',
                '.t2', '.t3', '.t4', 'rook_2x2_fixed.blf', 'rook_2x3_hloop.bl8', 'queen_2x2_fixed.bl4', 'mesh_quad4.blf')
        qs = [q for q in qs if any(k in q.qid for k in keep) and 'rook_2x3_hloop.bl20' not in q.qid and not ('rook_2x3_hloop' in q.qid and '.t2' in q.qid)]
    return qs
