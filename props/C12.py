from fsv import Query

EXPLANATION = ('spl_eroder::erode on concrete graph structures with symbolic elevation / area / K / dt / weights / distances (bounded magnitudes): '
               'asserted on the eroder\'s OUTPUT: zero erosion at self receivers (base levels, pits, masked nodes are self receivers after routing) and at nodes '
               'not above the post-erosion level of their lowest receiver (lakes); rejection of non-linear exponents on multiple-direction graphs (set_slope_exp)')
ASSUMPTIONS = ['graph structure concrete per query; per-node queries (cone of influence); magnitudes bounded (|elevation| <= 1e15, area <= 1e15, K <= 1e6, dt <= 1e9, distance in [1e-3, 1e6]): overflowing products are outside the claim',
               'the "not negative beyond rounding" and "not lowered below the lowest receiver" clauses are inequalities through binary64 division and subtraction: no verdict in 280 s (cadical and cvc5) on a 3-node chain; '
               'they are NOT decided here; in exact arithmetic they follow from the equality decided in C13(ii) (the result equals the clamped direct solution)']


def queries(tier, kfs):
    qs = []
    structs = [(1, 3, 2, 1, 1, (0, 1, 2)), (2, 4, 2, 1, 0, (1,)), (3, 4, 2, 0, 0, (1,)), (4, 4, 2, 1, 1, (2, 3))]
    if tier != 'quick':
        structs = [(1, 3, 2, 1, 1, (0, 1, 2)), (2, 4, 2, 1, 0, (0, 1, 2, 3)), (3, 4, 2, 0, 0, (0, 1, 2, 3)), (4, 4, 2, 1, 1, (0, 1, 2, 3))]
    for (sid, n, d, single, kscalar, nodes) in structs:
        for node in nodes:
            for nexp in ('1.0',):   # the Newton path (n != 1) has no bound with pow as an uninterpreted stub: not decided
                qs.append(Query('lakes_pits.struct%d.node%d.n%s' % (sid, node, nexp), 'spl.cpp', 'c12.c', dict(FSV_N=n, FSV_D=d, FSV_SINGLE=single),
                                dict(N=n, D=d, SINGLE=single, STRUCT=sid, K_SCALAR=kscalar, ONLY_NODE=node, MEXP='0.5', NEXP=nexp, CLAUSE=1, FSV_POW_SEQ=1),
                                unwind=max(16, n * (d + 1) + 3), solver='race', timeout=1200 if tier == 'quick' else 7200,
                                loops=[(r'spl\.hpp:erode', 12)],
                                bounds=dict(N=n, structure=sid, node=node, direction='single' if single else 'multi', slope_exponent=nexp, area_exponent=0.5,
                                            clause='zero erosion at self receivers and in lakes')))

    # two steps on the SAME eroder with the routes changed in between (a node eroded in step 1 is a pit / has other receivers in step 2):
    # the second result must be the direct solution on the new routes; nothing of step 1 may survive
    rer = [(1, 1, 3, 2, 1, 1, (1, 2)), (2, 2, 4, 2, 1, 0, (3,))]
    if tier != 'quick':
        rer += [(2, 2, 4, 2, 1, 0, (1,)), (3, 3, 4, 2, 0, 0, (3, 2))]
    for (rid, sid, n, d, single, kscalar, nodes) in rer:
        for node in nodes:
            qs.append(Query('erode_rerouted.struct%d.to%d.node%d' % (sid, rid, node), 'spl.cpp', 'c13_erode.c', dict(FSV_N=n, FSV_D=d, FSV_SINGLE=single),
                            dict(N=n, D=d, SINGLE=single, STRUCT=sid, REROUTE=rid, K_SCALAR=kscalar, ROUNDS=2, ONLY_NODE=node, MEXP='1.0', FSV_POW_SEQ=1),
                            unwind=max(16, n * (d + 1) + 3), solver='race', timeout=1200 if tier == 'quick' else 7200,
                            bounds=dict(N=n, structure=sid, rerouted_to=rid, node=node, direction='single' if single else 'multi', steps=2,
                                        symbolic='elevation (both steps), area, K, dt, weights, distances')))
    # node whose receivers include one that may be HIGHER than the node (next to a lake spill): it must not contribute (exact result, C13 harness)
    qs.append(Query('erode_linear.struct6.node2.m1.0.r1', 'spl.cpp', 'c13_erode.c', dict(FSV_N=3, FSV_D=2, FSV_SINGLE=0),
                    dict(N=3, D=2, SINGLE=0, STRUCT=6, K_SCALAR=0, ROUNDS=1, ONLY_NODE=2, MEXP='1.0', FSV_POW_SEQ=1), unwind=16, solver='race',
                    timeout=1200 if tier == 'quick' else 7200,
                    bounds=dict(N=3, structure=6, node=2, direction='multi', steps=1, symbolic='elevation, area, K, dt, weights, distances')))
    qs.append(Query('reject_nonlinear_on_multi', 'spl.cpp', 'c13_linear.c', dict(FSV_N=3, FSV_D=2, FSV_SINGLE=0), dict(SINGLE=0), unwind=16,
                    bounds=dict(n='every non-NaN binary64', graph='multi')))
    return qs
