from fsv import Query

EXPLANATION = ('flow_graph_impl::compute_donors / compute_dfs_indices_bottomup / compute_dfs_indices_topdown / '
               'compute_bfs_indices_bottomup executed symbolically from an arbitrary valid receiver table (pre-state invariant '
               'assumed, see harness/c06.c); std::stack shimmed onto std::vector')
ASSUMPTIONS = ['pre-state: arbitrary receiver forest (single) / DAG (multi) satisfying the representation invariant written in harness/c06.c; '
               'in-degree <= D', 'std::stack default container replaced by std::vector (shim/stack); LIFO behaviour is fixed by the standard']


def queries(tier, kfs):
    qs = []
    cfg = [(3, 2, 1), (4, 2, 1), (3, 2, 0), (4, 2, 0)] if tier == 'quick' else \
        [(3, 2, 1), (4, 2, 1), (5, 2, 1), (4, 3, 1), (5, 3, 1), (3, 2, 0), (4, 2, 0), (4, 3, 0), (5, 2, 0), (5, 3, 0), (6, 2, 1)]
    for n, d, single in cfg:
        qs.append(Query('orders.N%d.D%d.%s' % (n, d, 'single' if single else 'multi'), 'graph.cpp', 'c06.c',
                        dict(FSV_N=n, FSV_D=d, FSV_SINGLE=single), dict(N=n, D=d, SINGLE=single),
                        unwind=max(16, n * (d + 1) + 3), loops=[(r'flow_graph_impl\.hpp:compute_', n + 2), (r'c06\.c:', max(n * d, n + 1) + 2)], timeout=900 if tier == 'quick' else 7200,
                        bounds=dict(N=n, D=d, direction='single' if single else 'multi', state='arbitrary valid receiver table')))
    return qs
