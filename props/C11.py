from fsv import Query

EXPLANATION = ('(a) thread_pool<size_t>::blocks (constructor, start, end, num_blocks) executed symbolically: range start, length and '
               'min block size are symbolic, pool size concrete per query')
ASSUMPTIONS = ['part (a) only in this check: the block partition arithmetic; range length <= RANGE, min_size <= MINMAX, first <= 10^6 (no wrap-around of first+len)',
               'pool size >= 1 (the library never builds a pool of size 0 before run_blocks)']


def queries(tier, kfs):
    qs = []
    pools = (1, 2, 3, 4, 7, 8, 16) if tier == 'quick' else tuple(range(1, 17))
    rng, mm = (4096, 8192) if tier == 'quick' else (65536, 131072)
    for p in pools:
        qs.append(Query('blocks.pool%d' % p, 'pool_blocks.cpp', 'c11_blocks.c', {}, dict(POOL=p, RANGE=rng, MINMAX=mm), unwind=18,
                        solver='cadical', safety=True, timeout=900 if tier == 'quick' else 7200, shim=False,
                        bounds=dict(pool_size=p, range_len='1..%d' % rng, min_size='0..%d' % mm, first='0..10^6')))
    return qs
