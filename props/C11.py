from fsv import Query, CustomQuery
import fsv
import json
import os
import sys
import time


def hb_query(q, prop, seed, outdir):
    sys.path.insert(0, os.path.join(fsv.VERIF, 'tools'))
    import pool_hb
    wd = os.path.join(fsv.BUILD, 'pool_hb')
    os.makedirs(wd, exist_ok=True)
    # z3's python API lives in the tooling venv (python3-vt)
    rc, o, e, w, _ = fsv.sh(['python3-vt', os.path.join(fsv.VERIF, 'tools', 'pool_hb.py'), wd], timeout=600, env=dict(os.environ, FSV_REPO=fsv.REPO))
    if rc != 0:
        return dict(verdict='ERROR', error='pool_hb failed: ' + (e or o)[-1500:])
    js = json.loads(o.strip().split('\n')[-1])
    roles, nops, race, st = js['roles'], js['nops'], js['race'], js['stats']
    r = dict(functions=['fastscapelib::thread_pool<size_t>::run_tasks', 'fastscapelib::thread_pool<size_t>::was_empty',
                        'fastscapelib::thread_pool<size_t>::start()::lambda (worker loop)', 'fastscapelib::thread_pool<size_t>::set_tasks'],
             cbmc=dict(status='z3 ' + st['z3_result'], solver='z3 (python API)', solver_s=st['z3_s'], vccs=st['candidate_pairs'], remaining=st['candidate_pairs'], props=st['candidate_pairs']),
             witness=dict(reachable=True, status='events extracted: %d atomic operations attributed to thread_pool_inl.hpp' % nops),
             bounds=dict(q.bounds, memory_orders={k: dict(order=v['order'], line=v['line'], source=v['source']) for k, v in roles.items()}, sw=st['sw']))
    if not race:
        r['verdict'] = 'PASS'
        return r
    cex = os.path.join(outdir, q.qid + '.cex')
    open(cex, 'w').write(json.dumps(dict(racy_pairs=race, orders=st['orders']), indent=1) + '\n')
    ok, rep = pool_hb.tsan_replay(fsv.REPO, wd)
    r.update(cex=cex, custom='pool_hb', cex_description='conflicting non-atomic accesses unordered by happens-before: %s' % race,
             cex_inputs=dict(racy_pairs=str(race), orders=str(st['orders'])), replay_out=(rep or '')[-1500:], replay_rc=1 if ok else 0)
    if ok:
        r['verdict'] = 'CEX'
    else:
        r.update(verdict='ERROR', error='z3 reports a race that ThreadSanitizer did not reproduce on the real pool (%s)' % (rep or '')[:200])
    return r

EXPLANATION = ('(b) pause/resume/run_blocks protocol: no lost wake-up, no lost block, bounded interleaving model in z3 built on the synchronisation skeleton extracted from the IR; counter-example schedules confirmed by a native stress loop with watchdog. (c) publish/consume handshake of run_tasks / worker loop / was_empty: memory orders read from the LLVM IR of the real code, happens-before decided by z3 over a 10-event skeleton; counter-example confirmed by ThreadSanitizer on the real pool. ' +
               '(a) thread_pool<size_t>::blocks (constructor, start, end, num_blocks) executed symbolically: range start, length and '
               'min block size are symbolic, pool size concrete per query')
ASSUMPTIONS = ['part (c): the event skeleton of one round (who writes/reads p_jobs, job closures, results, in which order around the four flag accesses) is written by hand in tools/pool_hb.py and its four atomic accesses are located in the IR by source text; a change of the skeleton makes the extraction fail (check error), not pass',
               'part (b): bounded interleaving model (z3) of pause(); resume(); run_blocks() with W = 1, 2 workers; mutex / condition variable / counter / flag semantics are modelled by hand, the order of the synchronisation calls in resume(), pause(), the pause job and the worker loop is read from the IR (skeleton mismatch -> check error); resize(), stop(), more than one pause/resume cycle, W > 2 and spurious wake-ups are outside the model',
               'part (a): the block partition arithmetic; range length <= RANGE, min_size <= MINMAX, first <= 10^6 (no wrap-around of first+len)',
               'pool size >= 1 (the library never builds a pool of size 0 before run_blocks)']


def protocol_query(q, prop, seed, outdir):
    wd = os.path.join(fsv.BUILD, 'pool_protocol')
    os.makedirs(wd, exist_ok=True)
    rc, o, e, w, _ = fsv.sh(['python3-vt', os.path.join(fsv.VERIF, 'tools', 'pool_protocol.py'), wd], timeout=900, env=dict(os.environ, FSV_REPO=fsv.REPO))
    if rc != 0:
        return dict(verdict='ERROR', error='pool_protocol failed (skeleton mismatch or tool error): ' + (e or o)[-1500:])
    js = json.loads(o.strip().split('\n')[-1])
    res = js['results']
    bad = [(k, kind) for k, v in res.items() for kind in ('deadlock', 'lost_job') if v[kind] != 'unsat']
    vac = [k for k, v in res.items() if v['witness_end_reachable'] != 'sat']
    r = dict(functions=['fastscapelib::thread_pool<size_t>::pause', 'fastscapelib::thread_pool<size_t>::resume', 'fastscapelib::thread_pool<size_t>::run_tasks',
                        'fastscapelib::thread_pool<size_t>::wait', 'fastscapelib::thread_pool<size_t>::init_pause_jobs()::lambda', 'fastscapelib::thread_pool<size_t>::start()::lambda'],
             cbmc=dict(status='z3 ' + str({k: (v['deadlock'], v['lost_job']) for k, v in res.items()}), solver='z3 (python API), bounded interleaving model', solver_s=sum(v['z3_s'] for v in res.values()),
                       vccs=2 * len(res), remaining=2 * len(res), props=2 * len(res)),
             witness=dict(reachable=not vac, status='normal completion reachable in the model: %s' % {k: v['witness_end_reachable'] for k, v in res.items()}),
             bounds=dict(q.bounds, skeleton_from_IR=js['skeleton'], sync_events_in_IR=js['n_events'], steps={k: v['steps'] for k, v in res.items()}))
    if vac:
        return dict(r, verdict='ERROR', error='model vacuous: the caller cannot finish in %s' % vac)
    if not bad:
        r['verdict'] = 'PASS'
        return r
    cex = os.path.join(outdir, q.qid + '.cex')
    tr = {k: (v.get('deadlock_trace') or v.get('lost_job_trace')) for k, v in res.items()}
    open(cex, 'w').write(json.dumps(dict(failing=bad, skeleton=js['skeleton'], traces=tr), indent=1) + '\n')
    sys.path.insert(0, os.path.join(fsv.VERIF, 'tools'))
    import pool_protocol
    ok, rep = pool_protocol.stress_replay(fsv.REPO, wd)
    r.update(cex=cex, custom='pool_protocol', cex_description='pause/resume/run_blocks protocol: %s reachable (skeleton %s)' % (bad, js['skeleton']),
             cex_inputs=dict(failing=str(bad), last_states=str((tr.get('W1') or [])[-3:])), replay_out=(rep or '')[-800:], replay_rc=1 if ok else 0)
    if ok:
        r['verdict'] = 'CEX'
    else:
        r.update(verdict='ERROR', error='the model reports %s but the native stress loop on the real pool did not hang or lose a job in 3 x 20000 rounds (timing dependent): %s' % (bad, (rep or '')[:200]))
    return r


def queries(tier, kfs):
    qs = []
    pools = (1, 2, 3, 4, 7, 8, 16) if tier == 'quick' else tuple(range(1, 17))
    rng, mm = (4096, 8192) if tier == 'quick' else (65536, 131072)
    for p in pools:
        qs.append(Query('blocks.pool%d' % p, 'pool_blocks.cpp', 'c11_blocks.c', {}, dict(POOL=p, RANGE=rng, MINMAX=mm), unwind=18,
                        solver='cadical', safety=True, timeout=900 if tier == 'quick' else 7200, shim=False,
                        bounds=dict(pool_size=p, range_len='1..%d' % rng, min_size='0..%d' % mm, first='0..10^6')))
    qs.append(CustomQuery('protocol.pause_resume_run_blocks', protocol_query,
                          bounds=dict(scenario='caller: pause(); resume(); run_blocks()  workers: worker loop', workers='1 and 2', scheduler_steps='40 / 54',
                                      properties='no deadlock (lost wake-up), every block executed exactly once')))
    qs.append(CustomQuery('handshake.happens_before', hb_query,
                          bounds=dict(round='one run_blocks round: publish job i, worker i takes it, runs it, clears the flag, caller observes', workers='any (per-worker flag)', events=10)))
    return qs
