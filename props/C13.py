from fsv import Query

EXPLANATION = ('(i) spl_eroder::set_slope_exp executed symbolically for every binary64 exponent (classification linear / Newton, rejection on multiple-direction graphs)')
ASSUMPTIONS = ['flow graph: harness type exposing a real flow_graph_impl (units/spl.cpp); the eroder only uses impl(), size(), grid_shape(), single_flow()']


def queries(tier, kfs):
    qs = []
    for single in (1, 0):
        qs.append(Query('classify.%s' % ('single' if single else 'multi'), 'spl.cpp', 'c13_linear.c', dict(FSV_N=3, FSV_D=2, FSV_SINGLE=single),
                        dict(SINGLE=single), unwind=16, bounds=dict(n='every non-NaN binary64', graph='single' if single else 'multi')))
    # (ii) linear-case equivalence queries (harness/c13_erode.c) are NOT run: no verdict within 200-500 s (cvc5 and SAT) even for a
    # 3-node chain, see DESIGN.md; the harness is kept for reference only
    return qs
