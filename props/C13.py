from fsv import Query

EXPLANATION = ('(ii) spl_eroder::erode, linear case, on concrete graph structures with symbolic elevation/area/K/dt/weights/distances: per node, the erosion equals old - new with new the direct solution of the discrete equation; (i) spl_eroder::set_slope_exp executed symbolically for every binary64 exponent (classification linear / Newton, rejection on multiple-direction graphs)')
ASSUMPTIONS = ['flow graph: harness type exposing a real flow_graph_impl (units/spl.cpp); the eroder only uses impl(), size(), grid_shape(), single_flow()']


def queries(tier, kfs):
    qs = []
    for single in (1, 0):
        qs.append(Query('classify.%s' % ('single' if single else 'multi'), 'spl.cpp', 'c13_linear.c', dict(FSV_N=3, FSV_D=2, FSV_SINGLE=single),
                        dict(SINGLE=single), unwind=16, bounds=dict(n='every non-NaN binary64', graph='single' if single else 'multi')))
    # (ii) linear case n = 1: erosion_i == old_i - new_i with new_i the direct solution of the backward-Euler equation
    # (limited at the receivers' new level, zero in lakes and at self receivers), decided PER NODE (cone of influence), cvc5/cadical race
    structs = [(1, 3, 2, 1, 1, 1, (0, 1)), (2, 4, 2, 1, 0, 1, (1, 2)), (3, 4, 2, 0, 0, 1, (1, 2)), (4, 4, 2, 1, 1, 1, (2, 3)),
               (6, 3, 2, 0, 0, 1, (2,))]   # 6: node with two terminal receivers, one of which may be HIGHER than the node
    if tier != 'quick':
        structs += [(1, 3, 2, 1, 1, 1, (2,)), (4, 4, 2, 1, 1, 1, (1,)), (2, 4, 2, 1, 0, 1, (3,)), (3, 4, 2, 0, 0, 1, (3,)), (1, 3, 2, 1, 1, 2, (1, 2)), (5, 5, 2, 0, 0, 1, (1, 2))]
    for (sid, n, d, single, kscalar, rounds, nodes) in structs:
        for node in nodes:
            for mexp in (('1.0', '0.5') if (tier != 'quick' and rounds == 1 and sid != 5) else ('1.0',)):   # the call-sequence pow stub pairs calls of ONE step
                qs.append(Query('erode_linear.struct%d.node%d.m%s.r%d' % (sid, node, mexp, rounds), 'spl.cpp', 'c13_erode.c',
                                dict(FSV_N=n, FSV_D=d, FSV_SINGLE=single),
                                dict(N=n, D=d, SINGLE=single, STRUCT=sid, K_SCALAR=kscalar, ROUNDS=rounds, ONLY_NODE=node, MEXP=mexp, FSV_POW_SEQ=1),
                                unwind=max(16, n * (d + 1) + 3), solver='race', timeout=1200 if tier == 'quick' else 7200,
                                bounds=dict(N=n, structure=sid, node=node, direction='single' if single else 'multi', k='scalar' if kscalar else 'array',
                                            area_exponent=mexp, steps=rounds, symbolic='elevation, area, K, dt, weights, distances')))

    # two steps on the SAME eroder with the routes changed in between (a node eroded in step 1 is a pit / has other receivers in step 2):
    # the second result must be the direct solution on the new routes; nothing of step 1 may survive
    rer = [(1, 1, 3, 2, 1, 1, (1, 2)), (2, 2, 4, 2, 1, 0, (3,))]
    if tier != 'quick':
        rer += [(2, 2, 4, 2, 1, 0, (1,)), (3, 3, 4, 2, 0, 0, (3, 2))]
    for (rid, sid, n, d, single, kscalar, nodes) in rer:
        for node in nodes:
            qs.append(Query('erode_rerouted.struct%d.to%d.node%d' % (sid, rid, node), 'spl.cpp', 'c13_erode.c', dict(FSV_N=n, FSV_D=d, FSV_SINGLE=single),
                            dict(N=n, D=d, SINGLE=single, STRUCT=sid, REROUTE=rid, K_SCALAR=kscalar, ROUNDS=2, ONLY_NODE=node, MEXP='1.0', FSV_POW_SEQ=1),
                            unwind=max(16, n * (d + 1) + 3), solver='race', timeout=1200 if tier == 'quick' else 7200,
                            bounds=dict(N=n, structure=sid, rerouted_to=rid, node=node, direction='single' if single else 'multi', steps=2,
                                        symbolic='elevation (both steps), area, K, dt, weights, distances')))
    return qs
