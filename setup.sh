#!/bin/sh
# offline setup: nothing to fetch; verify the tools the checks need are present
set -e
for t in cbmc clang++-14 g++ gcc python3 python3-vt cvc5; do command -v $t >/dev/null || { echo "missing tool: $t"; exit 1; }; done
mkdir -p /verif/build /verif/out /verif/evidence
echo setup ok
