/* C19: basin labels from an ARBITRARY valid single-direction state (receivers forest + bottom-up order), symbolic mask.
 * Defines: N, D, BLMASK (concrete base-level set), USE_MASK (0/2), ROUNDS (1/2: second call on the same object)
 */
#include "fsv_harness.h"
#include "unit.h"
#ifndef ROUNDS
#define ROUNDS 1
#endif
uint64_t in_rec[N], in_dfs[N], in_rec0[N], in_dfs0[N];
uint8_t in_mask[N], in_mask0[N];

static void assume_state(const uint64_t* rec, const uint64_t* dfs)
{
  /* dfs is a permutation in which every node comes after its receiver (bottom-up order) */
  uint64_t pos[N];
  for (int i = 0; i < N; i++) pos[i] = N;
  for (int p = 0; p < N; p++) { FSV_ASSUME(dfs[p] < N); FSV_ASSUME(pos[dfs[p]] == N); pos[dfs[p]] = p; }
  for (int i = 0; i < N; i++) if (rec[i] != (uint64_t)i) FSV_ASSUME(pos[rec[i]] < pos[i]);
}

void fsv_harness(void)
{
  uint64_t bl[N + 1], nbl = 0, basins[N], outlets[N], noutlets = 0, pits[N], npits = 0;
#ifdef REC
  /* concrete structure per query (enumerated by the runner); the mask stays symbolic */
  { static const uint64_t r_[N] = REC; static const uint64_t d_[N] = DFS; for (int i = 0; i < N; i++) { in_rec[i] = r_[i]; in_dfs[i] = d_[i]; } }
#else
  FSV_IN_U64(in_rec, N, 0, N - 1); FSV_IN_U64(in_dfs, N, 0, N - 1);
#endif
  assume_state(in_rec, in_dfs);
#if USE_MASK
  FSV_IN_U8(in_mask, N, 0, 1);
#else
  for (int i = 0; i < N; i++) in_mask[i] = 0;
#endif
#if ROUNDS == 2
#ifdef REC0
  { static const uint64_t r_[N] = REC0; static const uint64_t d_[N] = DFS0; for (int i = 0; i < N; i++) { in_rec0[i] = r_[i]; in_dfs0[i] = d_[i]; } }
#else
  FSV_IN_U64(in_rec0, N, 0, N - 1); FSV_IN_U64(in_dfs0, N, 0, N - 1);
#endif
  assume_state(in_rec0, in_dfs0);
#if USE_MASK
  FSV_IN_U8(in_mask0, N, 0, 1);
#endif
#endif
  for (int i = 0; i < N; i++) if ((BLMASK >> i) & 1) bl[nbl++] = i;
#if ROUNDS == 2
  fsv_basins(in_rec0, in_dfs0, in_mask0, USE_MASK, bl, nbl, in_rec, in_dfs, in_mask, basins, outlets, &noutlets, pits, &npits);
#else
  fsv_basins(in_rec, in_dfs, in_mask, USE_MASK, bl, nbl, 0, 0, 0, basins, outlets, &noutlets, pits, &npits);
#endif
  for (int i = 0; i < N; i++) FSV_OBS_U64(basins[i]);
  FSV_OBS_U64(noutlets); FSV_OBS_U64(npits);
  for (int i = 0; i < N; i++) { if ((uint64_t)i < noutlets) FSV_OBS_U64(outlets[i]); if ((uint64_t)i < npits) FSV_OBS_U64(pits[i]); }

  /* expected: unmasked outlets numbered 0.. in bottom-up order */
  uint64_t k = 0, xo[N];
  for (int p = 0; p < N; p++) { uint64_t i = in_dfs[p]; if (!in_mask[i] && in_rec[i] == i) xo[k++] = i; }
  FSV_ASSERT(noutlets == k, "number of distinct labels equals the number of unmasked outlets");
  uint64_t xp = 0;
  for (int q = 0; q < N; q++) if ((uint64_t)q < k) {
    FSV_ASSERT(outlets[q] == xo[q], "outlets are listed in bottom-up order");
    FSV_ASSERT(basins[xo[q]] == (uint64_t)q, "outlets get consecutive labels from zero in bottom-up order");
    if (!((BLMASK >> xo[q]) & 1)) { FSV_ASSERT(xp < npits && pits[xp] == xo[q], "pits are exactly the outlets that are not base levels"); xp++; }
  }
  FSV_ASSERT(npits == xp, "no other pits");
  for (int i = 0; i < N; i++) {
    if (in_mask[i]) FSV_ASSERT(basins[i] == UINT64_MAX, "masked node carries the reserved maximum label");
    else {
      FSV_ASSERT(basins[i] < k, "label in range");
      /* the statement requires label(i) == label(receiver(i)) for unmasked i; when the receiver is masked the
         library keeps the label of the basin being traversed, which is what the bottom-up walk defines */
      if (!in_mask[in_rec[i]]) FSV_ASSERT(basins[i] == basins[in_rec[i]], "unmasked node has the label of its receiver");
    }
  }
  FSV_END();
}
