/* C13(i)/C12: classification of the slope exponent.  For EVERY binary64 n: the eroder takes the linear (exact) path
 * exactly when |n - 1| <= DBL_EPSILON; on a multiple-direction graph every other exponent is rejected with an error.
 * Define SINGLE (1/0). */
#include "fsv_harness.h"
#include "unit.h"
fsv_f64 in_n[1];
void fsv_harness(void)
{
  int linear = -1;
  FSV_IN_F64(in_n, 1);
  FSV_ASSUME(!FSV_ISNAN(in_n[0]));
  fsv_f64 d = in_n[0] - 1.0;
  int want_linear = (d <= DBL_EPSILON && d >= -DBL_EPSILON);
#if !SINGLE
  fsv_expect_throw = !want_linear;
#endif
  FSV_MAY_THROW(fsv_spl_linear(in_n[0], SINGLE, &linear));
  FSV_OBS_U64(linear);
  FSV_ASSERT(linear == want_linear, "linear path is taken exactly when |n - 1| <= epsilon");
  FSV_END();
}
