/* C11(a): run_blocks' partition: disjoint contiguous non-empty blocks covering [first,last), count <= pool size.
 * Defines: POOL (concrete pool size 1..16), RANGE (max last-first), MINMAX (max min_size) */
#include "fsv_harness.h"
#include "unit.h"
uint64_t in_first[1], in_len[1], in_min[1];
void fsv_harness(void)
{
  uint64_t nb = 0, start[16], end[16];
  FSV_IN_U64(in_first, 1, 0, 1000000);
  FSV_IN_U64(in_len, 1, 1, RANGE);
  FSV_IN_U64(in_min, 1, 0, MINMAX);
  uint64_t first = in_first[0], last = in_first[0] + in_len[0];
  fsv_blocks(first, last, POOL, in_min[0], &nb, start, end);
  FSV_OBS_U64(nb);
  for (int i = 0; i < 16; i++) { FSV_OBS_U64(start[i]); FSV_OBS_U64(end[i]); }
  FSV_ASSERT(nb >= 1, "a non-empty range gives at least one block");
  FSV_ASSERT(nb <= POOL, "number of blocks never exceeds the pool size");
  if (nb >= 1 && nb <= 16) {
    FSV_ASSERT(start[0] == first, "first block starts at the range start");
    FSV_ASSERT(end[nb - 1] == last, "last block ends at the range end");
    for (int i = 0; i < 16; i++) if ((uint64_t)i < nb) {
      FSV_ASSERT(start[i] < end[i], "block is non-empty");
      if ((uint64_t)(i + 1) < nb) FSV_ASSERT(end[i] == start[i + 1], "blocks are contiguous and disjoint");
    }
  }
  FSV_END();
}
