/* C09 (router-only sequences): the state after call B does not depend on a previous call A on the same graph object,
 * and the router does not modify the elevation array it is given.
 * Defines: N, D, GRID (0 profile / 1 table), TABLE, MULTI (0/1), THREADS, BLA, BLB (base-level sets of the two calls),
 *          MASKA, MASKB (-1 none, else bitmask), PA, PB (exponents, multi), LOOPED, SPACING */
#include "fsv_harness.h"
#include "unit.h"
#ifndef D
#define D 2
#endif
#if MULTI
#define R D
#else
#define R 1
#endif
#if GRID == 1
#include TABLE
#endif
fsv_f64 in_ea[N], in_eb[N];
void fsv_harness(void)
{
  uint64_t bla[N + 1], blb[N + 1], nbla = 0, nblb = 0;
  uint8_t ma[N], mb[N];
  uint64_t rec1[N * R], rcount1[N], dcount1[N], donors1[N * (D + 1)], rec2[N * R], rcount2[N], dcount2[N], donors2[N * (D + 1)];
  fsv_f64 rdist1[N * R], rweight1[N * R], rdist2[N * R], rweight2[N * R], eb[N];
  uint64_t cnt[N], nb[N * D]; fsv_f64 dist[N * D];
  FSV_IN_F64(in_ea, N); FSV_IN_F64(in_eb, N);
  for (int i = 0; i < N; i++) { FSV_ASSUME(FSV_ISFINITE(in_ea[i]) && FSV_ISFINITE(in_eb[i])); eb[i] = in_eb[i]; }
  for (int i = 0; i < N; i++) { if ((BLA >> i) & 1) bla[nbla++] = i; if ((BLB >> i) & 1) blb[nblb++] = i; ma[i] = MASKA >= 0 ? ((MASKA >> i) & 1) : 0; mb[i] = MASKB >= 0 ? ((MASKB >> i) & 1) : 0; }
#if GRID == 0
  fsv_f64 sp = SPACING;
#ifdef LOOPED
  uint8_t st = 3;
#else
  uint8_t st = 1;
#endif
  fsv_history(MULTI, THREADS, in_ea, ma, MASKA >= 0, bla, nbla, PA, eb, mb, (MASKB >= 0 || MASKA >= 0), blb, nblb, PB, st, st, sp, 0, 0, 0,
              rec1, rdist1, rweight1, rcount1, dcount1, donors1, rec2, rdist2, rweight2, rcount2, dcount2, donors2);
#else
  for (int i = 0; i < N; i++) { cnt[i] = T_cnt[i]; for (int k = 0; k < D; k++) { nb[i * D + k] = T_nb[i * D + k]; dist[i * D + k] = T_dist[i * D + k]; } }
  fsv_history(MULTI, THREADS, in_ea, ma, MASKA >= 0, bla, nbla, PA, eb, mb, (MASKB >= 0 || MASKA >= 0), blb, nblb, PB, 0, 0, 0, cnt, nb, dist,
              rec1, rdist1, rweight1, rcount1, dcount1, donors1, rec2, rdist2, rweight2, rcount2, dcount2, donors2);
#endif
  for (int i = 0; i < N; i++) { FSV_OBS_U64(rcount1[i]); FSV_OBS_U64(rec1[i * R]); FSV_OBS_U64(dcount1[i]); FSV_OBS_F64(eb[i]); }
  for (int i = 0; i < N; i++) {
    FSV_ASSERT(eb[i] == in_eb[i], "the router leaves the elevation array it is given unchanged");
    FSV_ASSERT(rcount1[i] == rcount2[i], "receiver counts do not depend on the previous call");
    FSV_ASSERT(dcount1[i] == dcount2[i], "donor counts do not depend on the previous call");
    for (int k = 0; k < R; k++) if ((uint64_t)k < rcount2[i]) {
      FSV_ASSERT(rec1[i * R + k] == rec2[i * R + k], "receivers do not depend on the previous call");
      FSV_ASSERT(rdist1[i * R + k] == rdist2[i * R + k], "receiver distances do not depend on the previous call");
      FSV_ASSERT(rweight1[i * R + k] == rweight2[i * R + k] || (FSV_ISNAN(rweight1[i * R + k]) && FSV_ISNAN(rweight2[i * R + k])), "receiver weights do not depend on the previous call");
    }
    for (int k = 0; k < D + 1; k++) if ((uint64_t)k < dcount2[i]) FSV_ASSERT(donors1[i * (D + 1) + k] == donors2[i * (D + 1) + k], "donors do not depend on the previous call");
  }
  FSV_END();
}
