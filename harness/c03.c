/* C03: accumulate on a CONCRETE graph structure with SYMBOLIC source, cell areas and weights.
 * (a) the four overloads (in-place / returning x array / scalar source) give bit-identical results (scalar source == uniform array);
 * (b) acc_i == area_i*src_i + sum over donors d (in the traversal's order) of acc_d * w(d->i), evaluated in the same order;
 * Defines: N, D, SINGLE, STRUCT (as in c13_erode.c), WHICH (0..3 overload under test)
 */
#include "fsv_harness.h"
#include "unit.h"
#if SINGLE
#define R 1
#else
#define R D
#endif
#if STRUCT == 1
static const uint64_t S_rec[3] = {0, 0, 1}; static const uint64_t S_cnt[3] = {1, 1, 1}; static const uint64_t S_dfs[3] = {0, 1, 2};
#elif STRUCT == 2
static const uint64_t S_rec[4] = {0, 0, 0, 1}; static const uint64_t S_cnt[4] = {1, 1, 1, 1}; static const uint64_t S_dfs[4] = {0, 1, 3, 2};
#elif STRUCT == 3
static const uint64_t S_rec[8] = {0, 0, 0, 0, 0, 0, 1, 2}; static const uint64_t S_cnt[4] = {1, 1, 1, 2}; static const uint64_t S_dfs[4] = {0, 1, 2, 3};
#elif STRUCT == 4
static const uint64_t S_rec[4] = {0, 0, 3, 3}; static const uint64_t S_cnt[4] = {1, 1, 1, 1}; static const uint64_t S_dfs[4] = {0, 1, 3, 2};
#elif STRUCT == 5
static const uint64_t S_rec[10] = {0, 0, 0, 0, 0, 1, 1, 2, 2, 3}; static const uint64_t S_cnt[5] = {1, 1, 2, 2, 2}; static const uint64_t S_dfs[5] = {0, 1, 2, 3, 4};
#elif STRUCT == 6 /* N=5 multi (D=3): 4 -> {1,2,3}, 1,2,3 -> {0} */
static const uint64_t S_rec[15] = {0,0,0, 0,0,0, 0,0,0, 0,0,0, 1,2,3}; static const uint64_t S_cnt[5] = {1, 1, 1, 1, 3}; static const uint64_t S_dfs[5] = {0, 1, 2, 3, 4};
#endif
fsv_f64 in_src[N], in_area[N], in_w[N * R];

void fsv_harness(void)
{
  fsv_f64 acc[N], want[N], src[N];
  FSV_IN_F64(in_src, N); FSV_IN_F64(in_area, N); FSV_IN_F64(in_w, N * R);
  for (int i = 0; i < N; i++) { FSV_ASSUME(FSV_ISFINITE(in_src[i]) && FSV_ISFINITE(in_area[i]) && in_area[i] >= 0.0); for (int r = 0; r < R; r++) FSV_ASSUME(FSV_ISFINITE(in_w[i * R + r])); }
  for (int i = 0; i < N; i++) src[i] = (WHICH >= 2) ? in_src[0] : in_src[i];
  fsv_accumulate(S_rec, S_cnt, in_w, S_dfs, in_area, in_src, WHICH, acc);
  for (int i = 0; i < N; i++) FSV_OBS_F64(acc[i]);
  /* reference: top-down sweep (reverse of the bottom-up order) in the library's own evaluation order */
  for (int i = 0; i < N; i++) want[i] = 0.0;
  for (int p = N - 1; p >= 0; p--) {
    uint64_t i = S_dfs[p];
    want[i] += in_area[i] * src[i];
    for (int r = 0; r < (int)S_cnt[i]; r++) { uint64_t j = S_rec[i * R + r]; if (j != i) want[j] += want[i] * in_w[i * R + r]; }
  }
  for (int i = 0; i < N; i++)
    FSV_ASSERT(acc[i] == want[i] || (FSV_ISNAN(acc[i]) && FSV_ISNAN(want[i])), "accumulated value = source*area + donors' accumulated values times their partition weights (all four overloads)");
  FSV_END();
}
