/* C16 (copy step): a graph snapshot exposes exactly the state of the graph it was taken from; an elevation snapshot
 * equals the elevation.  Source state: ALL table entries symbolic (they are only copied); level count concrete.
 * Defines: N, D, SINGLE, NLEV (number of breadth-first level offsets), USE_MASK (0/1 symbolic mask), BLMASK,
 *          EXCL_KF (exclude the known-finding class: donor columns > 0 / bfs order+levels / mask+base levels) */
#include "fsv_harness.h"
#include "unit.h"
#if SINGLE
#define R 1
#else
#define R D
#endif
uint64_t in_rec[N * R], in_rcount[N], in_donors[N * (D + 1)], in_dcount[N], in_dfs[N], in_bfs[N], in_levels[N + 1];
fsv_f64 in_rdist[N * R], in_rweight[N * R], in_elev[N];
uint8_t in_mask[N], in_mask2[N];
uint64_t in_dfs2[N];
fsv_f64 in_elev2[N];
#ifndef ROUNDS
#define ROUNDS 1
#endif
void fsv_harness(void)
{
  uint64_t o_rec[N * R], o_rcount[N], o_donors[N * (D + 1)], o_dcount[N], o_dfs[N], o_bfs[N], o_levels[N + 1], o_nlevels = 0, bl[N + 1], nbl = 0;
  fsv_f64 o_rdist[N * R], o_rweight[N * R], o_elev[N];
  uint8_t o_mask[N], o_base[N];
  FSV_IN_U64(in_rec, N * R, 0, N - 1); FSV_IN_U64(in_rcount, N, 1, R); FSV_IN_U64(in_donors, N * (D + 1), 0, UINT64_MAX);
  FSV_IN_U64(in_dcount, N, 0, D + 1); FSV_IN_U64(in_dfs, N, 0, N - 1); FSV_IN_U64(in_bfs, N, 0, N - 1); FSV_IN_U64(in_levels, N + 1, 0, N);
  FSV_IN_F64(in_rdist, N * R); FSV_IN_F64(in_rweight, N * R); FSV_IN_F64(in_elev, N);
  for (int i = 0; i < N * R; i++) FSV_ASSUME(!FSV_ISNAN(in_rdist[i]) && !FSV_ISNAN(in_rweight[i]));
  for (int i = 0; i < N; i++) FSV_ASSUME(!FSV_ISNAN(in_elev[i]));
#if USE_MASK
  FSV_IN_U8(in_mask, N, 0, 1);
#else
  for (int i = 0; i < N; i++) in_mask[i] = 0;
#endif
#if ROUNDS == 2
  FSV_IN_U8(in_mask2, N, 0, 1); FSV_IN_U64(in_dfs2, N, 0, N - 1); FSV_IN_F64(in_elev2, N);
  for (int i = 0; i < N; i++) FSV_ASSUME(!FSV_ISNAN(in_elev2[i]));
#endif
  for (int i = 0; i < N; i++) if ((BLMASK >> i) & 1) bl[nbl++] = i;
  FSV_MAY_THROW(fsv_snapshot(in_rec, in_rcount, in_rdist, in_rweight, in_donors, in_dcount, in_dfs, in_bfs, in_levels, NLEV, in_mask, USE_MASK, bl, nbl, in_elev, ROUNDS, in_mask2, in_dfs2, in_elev2,
                             o_rec, o_rcount, o_rdist, o_rweight, o_donors, o_dcount, o_dfs, o_bfs, o_levels, &o_nlevels, o_mask, o_base, o_elev));
  for (int i = 0; i < N; i++) { FSV_OBS_U64(o_rcount[i]); FSV_OBS_U64(o_dcount[i]); FSV_OBS_U64(o_dfs[i]); FSV_OBS_U64(o_bfs[i]); FSV_OBS_F64(o_elev[i]); FSV_OBS_U64(o_donors[i * (D + 1)]); }
  /* expected state: that of the LAST save (in_* arrays are inputs and are never written: the trace reader takes the last assignment) */
  const uint8_t* x_mask = ROUNDS == 2 ? in_mask2 : in_mask;
  const uint64_t* x_dfs = ROUNDS == 2 ? in_dfs2 : in_dfs;
  const fsv_f64* x_elev = ROUNDS == 2 ? in_elev2 : in_elev;
  for (int i = 0; i < N; i++) {
    FSV_ASSERT(o_rcount[i] == in_rcount[i], "snapshot: receiver counts");
    FSV_ASSERT(o_dcount[i] == in_dcount[i], "snapshot: donor counts");
    FSV_ASSERT(o_dfs[i] == x_dfs[i], "snapshot: bottom-up (depth-first) order");
    FSV_ASSERT(o_elev[i] == x_elev[i], "elevation snapshot equals the elevation");
    for (int k = 0; k < R; k++) if ((uint64_t)k < in_rcount[i]) {
      FSV_ASSERT(o_rec[i * R + k] == in_rec[i * R + k], "snapshot: receivers");
      FSV_ASSERT(o_rdist[i * R + k] == in_rdist[i * R + k], "snapshot: receiver distances");
      FSV_ASSERT(o_rweight[i * R + k] == in_rweight[i * R + k], "snapshot: receiver weights");
    }
    FSV_ASSERT(in_dcount[i] == 0 || o_donors[i * (D + 1)] == in_donors[i * (D + 1)], "snapshot: first donor");
#ifndef EXCL_KF
    for (int k = 1; k < D + 1; k++) if ((uint64_t)k < in_dcount[i]) FSV_ASSERT(o_donors[i * (D + 1) + k] == in_donors[i * (D + 1) + k], "snapshot: donors beyond the first column");
    FSV_ASSERT(o_bfs[i] == in_bfs[i], "snapshot: breadth-first order");
    FSV_ASSERT(o_mask[i] == x_mask[i], "snapshot: mask (basins on the snapshot graph)");
    FSV_ASSERT(o_base[i] == ((BLMASK >> i) & 1), "snapshot: base levels (pits on the snapshot graph)");
#endif
  }
#ifndef EXCL_KF
  FSV_ASSERT(o_nlevels == NLEV, "snapshot: number of breadth-first levels");
  for (int l = 0; l < NLEV && l < N + 1; l++) FSV_ASSERT(o_nlevels != NLEV || o_levels[l] == in_levels[l], "snapshot: breadth-first level offsets");
#endif
  FSV_END();
}
