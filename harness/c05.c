/* C05: multiple-direction routing.
 * Defines: N, D, GRID (0 real profile grid / 1 table), BLMASK, USE_MASK/MASKBITS, TABLE, SPACING, LOOPED,
 *   PEXP (0 or 1: exact pow by the C standard; 2: "any exponent" with pow as a contract-constrained stub),
 *   P1EXP (exponent of the first of two rounds),
 *   ROUNDS (1 | 2: second application on the same graph object with another elevation field / exponent),
 *   EXCL_DEGENERATE: exclude the known-finding class (a node has lower neighbours but the sum of slope^p over
 *   them is zero, infinite or NaN, so that the normalisation divides 0/0 or inf/inf)
 */
#include "fsv_harness.h"
#include "unit.h"
#ifndef D
#define D 2
#endif
#ifndef ROUNDS
#define ROUNDS 1
#endif
#ifndef P1EXP
#define P1EXP 1
#endif
#if GRID == 1
#include TABLE
#endif
fsv_f64 in_e[N], in_e1[N];

void fsv_harness(void)
{
  uint64_t bl[N + 1]; uint64_t nbl = 0;
  uint64_t rec[N * D], rcount[N], dcount[N], donors[N * (D + 1)];
  fsv_f64 rdist[N * D], rweight[N * D];
  uint64_t cnt[N], nb[N * D]; fsv_f64 dist[N * D];
  uint8_t mask[N];
  FSV_IN_F64(in_e, N);
  for (int i = 0; i < N; i++) FSV_ASSUME(FSV_ISFINITE(in_e[i]));
#if ROUNDS == 2
  FSV_IN_F64(in_e1, N);
  for (int i = 0; i < N; i++) FSV_ASSUME(FSV_ISFINITE(in_e1[i]));
#endif
#if USE_MASK == 1
  for (int i = 0; i < N; i++) mask[i] = (MASKBITS >> i) & 1;
#else
  for (int i = 0; i < N; i++) mask[i] = 0;
#endif
  for (int i = 0; i < N; i++) if ((BLMASK >> i) & 1) bl[nbl++] = i;
#if GRID == 0
  fsv_f64 sp = SPACING;
#ifdef LOOPED
  uint8_t st = 3;
#else
  uint8_t st = 1;
#endif
  for (int i = 0; i < N; i++) {
#ifdef LOOPED
    cnt[i] = 2; nb[i * 2] = (i + N - 1) % N; nb[i * 2 + 1] = (i + 1) % N;
#else
    if (i == 0) { cnt[i] = 1; nb[0] = 1; nb[1] = 0; }
    else if (i == N - 1) { cnt[i] = 1; nb[i * 2] = N - 2; nb[i * 2 + 1] = 0; }
    else { cnt[i] = 2; nb[i * 2] = i - 1; nb[i * 2 + 1] = i + 1; }
#endif
    dist[i * 2] = dist[i * 2 + 1] = sp;
  }
  fsv_multi(ROUNDS == 2 ? in_e1 : in_e, in_e, ROUNDS, ROUNDS == 2 ? (double)P1EXP : (double)PEXP, (double)PEXP, mask, USE_MASK, bl, nbl, st, st, sp, 0, 0, 0, rec, rdist, rweight, rcount, dcount, donors);
#else
  for (int i = 0; i < N; i++) { cnt[i] = T_cnt[i]; for (int k = 0; k < D; k++) { nb[i * D + k] = T_nb[i * D + k]; dist[i * D + k] = T_dist[i * D + k]; } }
  fsv_multi(ROUNDS == 2 ? in_e1 : in_e, in_e, ROUNDS, ROUNDS == 2 ? (double)P1EXP : (double)PEXP, (double)PEXP, mask, USE_MASK, bl, nbl, 0, 0, 0, cnt, nb, dist, rec, rdist, rweight, rcount, dcount, donors);
#endif
  const fsv_f64* e = in_e;
  for (int i = 0; i < N; i++) { FSV_OBS_U64(rcount[i]); for (int k = 0; k < (int)rcount[i] && k < D; k++) { FSV_OBS_U64(rec[i * D + k]); FSV_OBS_F64(rdist[i * D + k]); FSV_OBS_F64(rweight[i * D + k]); } }

  for (int i = 0; i < N; i++) {
    int base = (BLMASK >> i) & 1;
    /* expected receivers: unmasked strictly lower neighbours, in neighbour order */
    int n = 0; uint64_t xr[D]; fsv_f64 xd[D], xs[D];
    if (!base && !mask[i]) for (int k = 0; k < (int)cnt[i]; k++) {
      uint64_t j = nb[i * D + k];
      if (!mask[j] && e[i] > e[j]) { xr[n] = j; xd[n] = dist[i * D + k]; xs[n] = (e[i] - e[j]) / dist[i * D + k]; n++; }
    }
    if (n == 0) {
      FSV_ASSERT(rcount[i] == 1 && rec[i * D] == (uint64_t)i, "base level / masked / no lower neighbour: own single receiver");
      FSV_ASSERT(rdist[i * D] == 0.0, "self receiver distance zero");
      continue;
    }
    FSV_ASSERT(rcount[i] == (uint64_t)n, "receiver count equals the number of unmasked strictly lower neighbours");
    if (rcount[i] != (uint64_t)n) continue;
    fsv_f64 sum = 0.0; fsv_f64 pw[D];
    for (int k = 0; k < n; k++) {
#if PEXP == 1
      pw[k] = xs[k];
#elif PEXP == 0
      pw[k] = 1.0;
#else
      pw[k] = FSV_POW(xs[k], (double)PEXP);
#endif
      sum += pw[k];
    }
#ifdef EXCL_DEGENERATE
    FSV_ASSUME(sum > 0.0 && FSV_ISFINITE(sum));
#endif
    if (!(sum > 0.0 && FSV_ISFINITE(sum))) FSV_NOTE("CLASS degenerate-sum: node %d has %d lower neighbours, sum of slope^p = %g\n", i, n, sum);
    fsv_f64 wsum = 0.0;
    for (int k = 0; k < n; k++) {
      FSV_ASSERT(rec[i * D + k] == xr[k], "receivers are exactly the lower unmasked neighbours, each once");
      FSV_ASSERT(rdist[i * D + k] == xd[k], "receiver distance is the grid distance");
      fsv_f64 w = rweight[i * D + k];
#ifndef NO_WEIGHTS
      FSV_ASSERT(!FSV_ISNAN(w), "weight is not NaN");
#ifndef NAN_ONLY
      FSV_ASSERT(w == pw[k] / sum, "weight is slope^p over the sum of slope^p (library summation order)");
#endif
#endif
#ifdef WEIGHT_RANGE
      FSV_ASSERT(FSV_ISFINITE(w), "weight is finite");
      FSV_ASSERT(w >= 0.0 && w <= 1.0, "weight lies in [0, 1]");
#endif
      wsum += w;
    }
  }
  FSV_END();
}
