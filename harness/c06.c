/* C06 (unit level): donors / DFS / BFS computed by flow_graph_impl from an ARBITRARY valid receiver table.
 * Defines: N, D, SINGLE (1: forest, 0: DAG with up to D receivers per node)
 * Pre-state invariant (assumed): receivers in range; count in [1, D]; a node with a self receiver has count 1
 * (that is what both routers write); otherwise receivers are distinct, not self; a rank function witnesses
 * acyclicity (rank[r] < rank[i] for each receiver r != i); in-degree <= D (a node has at most D neighbours).
 */
#include "fsv_harness.h"
#include "unit.h"
#if SINGLE
#define R 1
#else
#define R D
#endif

uint64_t in_rec[N * R];
uint64_t in_rcount[N];
uint64_t in_rank[N];

void fsv_harness(void)
{
  uint64_t donors[N * (D + 1)], dcount[N], dfs[N], bfs[N], levels[N + 1], nlevels = 0;
  FSV_IN_U64(in_rec, N * R, 0, N - 1);
  FSV_IN_U64(in_rank, N, 0, N - 1);
#if SINGLE
  for (int i = 0; i < N; i++) in_rcount[i] = 1;
#else
  FSV_IN_U64(in_rcount, N, 1, D);
#endif
  uint64_t indeg[N];
  for (int i = 0; i < N; i++) indeg[i] = 0;
  for (int i = 0; i < N; i++) {
    for (int k = 0; k < (int)in_rcount[i]; k++) {
      uint64_t r = in_rec[i * R + k];
      if (r == (uint64_t)i) FSV_ASSUME(in_rcount[i] == 1);
      else { FSV_ASSUME(in_rank[r] < in_rank[i]); indeg[r]++; }
      for (int k2 = 0; k2 < k; k2++) FSV_ASSUME(in_rec[i * R + k2] != r);
    }
  }
  for (int i = 0; i < N; i++) FSV_ASSUME(indeg[i] <= D);

  fsv_orders(in_rec, in_rcount, donors, dcount, dfs, bfs, levels, &nlevels);
  for (int i = 0; i < N; i++) { FSV_OBS_U64(dcount[i]); FSV_OBS_U64(dfs[i]); FSV_OBS_U64(bfs[i]); for (int k = 0; k < (int)dcount[i] && k < D + 1; k++) FSV_OBS_U64(donors[i * (D + 1) + k]); }
  FSV_OBS_U64(nlevels);
  for (int i = 0; i < (int)nlevels && i < N + 1; i++) FSV_OBS_U64(levels[i]);

  /* donors = inverse of receivers for distinct nodes, with multiplicity */
  for (int j = 0; j < N; j++) {
    FSV_ASSERT(dcount[j] <= D + 1, "donor count within table width");
    for (int i = 0; i < N; i++) {
      if (i == j) continue;
      int want = 0, got = 0;
      for (int k = 0; k < (int)in_rcount[i]; k++) if (in_rec[i * R + k] == (uint64_t)j) want++;
      for (int k = 0; k < (int)dcount[j] && k < D + 1; k++) if (donors[j * (D + 1) + k] == (uint64_t)i) got++;
      FSV_ASSERT(want == got, "donor table is the inverse of the receiver table (with multiplicity)");
    }
  }
#if !defined(PART) || PART == 1
  /* bottom-up order: permutation, every node after each of its receivers */
  uint64_t pos[N];
  for (int i = 0; i < N; i++) pos[i] = N;
  for (int p = 0; p < N; p++) { FSV_ASSERT(dfs[p] < N, "dfs index in range"); if (dfs[p] < N) { FSV_ASSERT(pos[dfs[p]] == N, "dfs order has no duplicate"); pos[dfs[p]] = p; } }
  for (int i = 0; i < N; i++) for (int k = 0; k < (int)in_rcount[i]; k++) {
    uint64_t r = in_rec[i * R + k];
    if (r != (uint64_t)i) FSV_ASSERT(pos[r] < pos[i], "bottom-up order lists every node after each of its receivers");
  }
#endif
#if !defined(PART) || PART == 2
  /* breadth-first order: permutation partitioned into non-empty levels; receivers in strictly earlier levels */
  uint64_t bpos[N], lev[N];
  for (int i = 0; i < N; i++) bpos[i] = N;
  for (int p = 0; p < N; p++) { FSV_ASSERT(bfs[p] < N, "bfs index in range"); if (bfs[p] < N) { FSV_ASSERT(bpos[bfs[p]] == N, "bfs order has no duplicate"); bpos[bfs[p]] = p; } }
  FSV_ASSERT(nlevels >= 2 && nlevels <= N + 1, "level offsets array size");
  if (nlevels >= 2 && nlevels <= N + 1) {
    FSV_ASSERT(levels[0] == 0, "first level starts at 0");
    FSV_ASSERT(levels[nlevels - 1] == N, "last level offset equals the node count");
    for (int l = 1; l < (int)nlevels; l++) FSV_ASSERT(levels[l - 1] < levels[l], "levels are non-empty (strictly increasing offsets)");
    for (int i = 0; i < N; i++) { lev[i] = 0; for (int l = 1; l < (int)nlevels; l++) if (bpos[i] >= levels[l]) lev[i] = l; }
    for (int i = 0; i < N; i++) for (int k = 0; k < (int)in_rcount[i]; k++) {
      uint64_t r = in_rec[i * R + k];
      if (r != (uint64_t)i) FSV_ASSERT(lev[r] < lev[i], "every receiver lies in a strictly earlier breadth-first level");
    }
  }
#endif
  FSV_END();
}
