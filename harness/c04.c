/* C04: single-direction routing follows steepest descent.
 * Defines: N (nodes), D (max neighbours), GRID (0 real profile grid, 1 table grid), BLMASK (bit i = node i is a
 * base level; concrete per query), USE_MASK (0 none, 1 concrete MASKBITS, 2 symbolic), TABLE (header with the adjacency table),
 * THREADS (0/1: sequential kernel; >1: apply_par, blocks executed one after the other in the caller's thread),
 * ONLY_NODE (assert one node only: per-node decomposition for the larger tables),
 * EXCL_TINY (exclude the known-finding class "positive slope <= DBL_MIN"), LOOPED (profile: looped borders)
 */
#include "fsv_harness.h"
#include "unit.h"
#ifndef D
#define D 2
#endif
#ifndef THREADS
#define THREADS 0
#endif
#if GRID == 1
#include TABLE
#endif

fsv_f64 in_e[N];
uint8_t in_mask[N];
fsv_f64 in_spacing[1];

void fsv_harness(void)
{
  uint64_t bl[N + 1]; uint64_t nbl = 0;
  uint64_t rec[N], rcount[N], dcount[N], donors[N * (D + 1)];
  fsv_f64 rdist[N], rweight[N];
  uint64_t cnt[N], nb[N * D]; fsv_f64 dist[N * D];
  FSV_IN_F64(in_e, N);
  for (int i = 0; i < N; i++) FSV_ASSUME(FSV_ISFINITE(in_e[i]));
#if USE_MASK == 2
  FSV_IN_U8(in_mask, N, 0, 1);   /* symbolic mask */
#elif USE_MASK == 1
  for (int i = 0; i < N; i++) in_mask[i] = (MASKBITS >> i) & 1;   /* concrete mask per query */
#else
  for (int i = 0; i < N; i++) in_mask[i] = 0;
#endif
  for (int i = 0; i < N; i++) if ((BLMASK >> i) & 1) bl[nbl++] = i;
#if GRID == 0
#ifdef SPACING
  in_spacing[0] = SPACING;
#else
  FSV_IN_F64(in_spacing, 1);
  FSV_ASSUME(in_spacing[0] > 0 && FSV_ISFINITE(in_spacing[0]));
#endif
#ifdef LOOPED
  uint8_t st = 3;
#else
  uint8_t st = 1;
#endif
  for (int i = 0; i < N; i++) {
#ifdef LOOPED
    cnt[i] = 2; nb[i * 2] = (i + N - 1) % N; nb[i * 2 + 1] = (i + 1) % N;
#else
    if (i == 0) { cnt[i] = 1; nb[0] = 1; nb[1] = 0; }
    else if (i == N - 1) { cnt[i] = 1; nb[i * 2] = N - 2; nb[i * 2 + 1] = 0; }
    else { cnt[i] = 2; nb[i * 2] = i - 1; nb[i * 2 + 1] = i + 1; }
#endif
    dist[i * 2] = dist[i * 2 + 1] = in_spacing[0];
  }
  fsv_single_seq(in_e, in_mask, USE_MASK, bl, nbl, st, st, in_spacing[0], 0, 0, 0, 0, THREADS, rec, rdist, rweight, rcount, dcount, donors);
#else
  for (int i = 0; i < N; i++) { cnt[i] = T_cnt[i]; for (int k = 0; k < D; k++) { nb[i * D + k] = T_nb[i * D + k]; dist[i * D + k] = T_dist[i * D + k]; } }
  fsv_single_seq(in_e, in_mask, USE_MASK, bl, nbl, 0, 0, 0, cnt, nb, dist, T_status, THREADS, rec, rdist, rweight, rcount, dcount, donors);
#endif
  for (int i = 0; i < N; i++) { FSV_OBS_U64(rec[i]); FSV_OBS_F64(rdist[i]); FSV_OBS_F64(rweight[i]); FSV_OBS_U64(rcount[i]); FSV_OBS_U64(dcount[i]); }


  /* slopes in the library's own expression; their sign is tied to the elevation order by the arithmetic lemma
     harness/lemma_slope.c (proved for ALL finite a, b and finite d > 0 by its own query in the same run) */
  fsv_f64 sl[N * D];
  for (int i = 0; i < N; i++) for (int k = 0; k < (int)cnt[i]; k++) {
#ifdef ONLY_NODE
    if (i != ONLY_NODE) continue;
#endif
    fsv_f64 a = in_e[i], b = in_e[nb[i * D + k]];
    fsv_f64 s = (a - b) / dist[i * D + k];
    FSV_ASSUME(!(a <= b && s > 0.0) && !(a > b && s < 0.0));
    sl[i * D + k] = s;
  }
  for (int i = 0; i < N; i++) {
#ifdef ONLY_NODE
    if (i != ONLY_NODE) continue;   /* per-node query: cone of influence of one node */
#endif
    int base = (BLMASK >> i) & 1;
    FSV_ASSERT(rec[i] < N, "receiver index in range");
    FSV_ASSERT(rcount[i] == 1, "single receiver count");
    FSV_ASSERT(rweight[i] == 1.0, "partition weight one");
    if (base || in_mask[i]) {
      FSV_ASSERT(rec[i] == (uint64_t)i, "base-level or masked node is its own receiver");
      FSV_ASSERT(rdist[i] == 0.0, "self receiver distance zero");
      continue;
    }
    int lower = 0; fsv_f64 best = 0.0;
    for (int k = 0; k < (int)cnt[i]; k++) {
      uint64_t j = nb[i * D + k];
      if (in_mask[j]) continue;
      if (in_e[j] < in_e[i]) {
        fsv_f64 s = sl[i * D + k];
        if (!lower || s > best) best = s;
        lower = 1;
      }
    }
#ifdef EXCL_TINY
    /* known-finding class KF-C04-tiny-slope: a strictly lower neighbour exists but the steepest slope is <= DBL_MIN */
    FSV_ASSUME(!(lower && best <= DBL_MIN));
#endif
    FSV_ASSERT((rec[i] == (uint64_t)i) == !lower, "self receiver exactly when no unmasked neighbour is strictly lower");
    if (rec[i] != (uint64_t)i) {
      int found = 0;
      for (int k = 0; k < (int)cnt[i]; k++) {
        uint64_t j = nb[i * D + k];
        if (j == rec[i] && !in_mask[j] && rdist[i] == dist[i * D + k]) {
          fsv_f64 s = sl[i * D + k];
          if (s >= best) found = 1;
        }
      }
      FSV_ASSERT(found, "receiver is an unmasked neighbour of maximal slope, stored distance is the grid distance");
    } else {
      FSV_ASSERT(rdist[i] == 0.0, "self receiver distance zero");
    }
  }
  FSV_END();
}
