/* C12 / C13(ii): one stream-power step on a CONCRETE graph structure with SYMBOLIC values.
 * The eroder's result is compared with the direct solution of the backward-Euler discrete equation evaluated in the
 * same order (linear case n = 1):
 *     new_i = (old_i + sum_r f_r * new_r) / (1 + sum_r f_r),   f_r = K_i * dt * pow(A_i * w_r, m) / dist_r
 * over the receivers that are not higher than the node, limited to (lowest new receiver level + DBL_MIN), and zero
 * erosion at self receivers and at nodes not above their lowest receiver's new level (lakes).
 * Defines: N, D, SINGLE, STRUCT (structure id, see below), K_SCALAR (0/1), ROUNDS (1/2)
 */
#include "fsv_harness.h"
#include "unit.h"
#if SINGLE
#define R 1
#else
#define R D
#endif
#ifndef ROUNDS
#define ROUNDS 1
#endif

#if STRUCT == 1   /* N=3 single chain 2 -> 1 -> 0 */
static const uint64_t S_rec[3] = {0, 0, 1}; static const uint64_t S_cnt[3] = {1, 1, 1}; static const uint64_t S_dfs[3] = {0, 1, 2};
#elif STRUCT == 2 /* N=4 single: 1 -> 0, 2 -> 0, 3 -> 1 ; node order in dfs 0 1 3 2 */
static const uint64_t S_rec[4] = {0, 0, 0, 1}; static const uint64_t S_cnt[4] = {1, 1, 1, 1}; static const uint64_t S_dfs[4] = {0, 1, 3, 2};
#elif STRUCT == 3 /* N=4 multi (D=2): 3 -> {1,2}, 1 -> {0}, 2 -> {0}; 0 self */
static const uint64_t S_rec[8] = {0, 0, 0, 0, 0, 0, 1, 2}; static const uint64_t S_cnt[4] = {1, 1, 1, 2}; static const uint64_t S_dfs[4] = {0, 1, 2, 3};
#elif STRUCT == 4 /* N=4 single with two outlets: 0 self, 3 self (pit), 1 -> 0, 2 -> 3 */
static const uint64_t S_rec[4] = {0, 0, 3, 3}; static const uint64_t S_cnt[4] = {1, 1, 1, 1}; static const uint64_t S_dfs[4] = {0, 1, 3, 2};
#elif STRUCT == 5 /* N=5 multi (D=2): 4 -> {2,3}, 3 -> {1,2}, 2 -> {0,1}, 1 -> {0}, 0 self */
static const uint64_t S_rec[10] = {0, 0, 0, 0, 0, 1, 1, 2, 2, 3}; static const uint64_t S_cnt[5] = {1, 1, 2, 2, 2}; static const uint64_t S_dfs[5] = {0, 1, 2, 3, 4};
#elif STRUCT == 6 /* N=3 multi (D=2): 2 -> {0,1}; 0 and 1 terminal (either may be higher than node 2: lake spill neighbour) */
static const uint64_t S_rec[6] = {0, 0, 1, 1, 0, 1}; static const uint64_t S_cnt[3] = {1, 1, 2}; static const uint64_t S_dfs[3] = {0, 1, 2};
#endif

/* REROUTE: the routes change between the two steps (ROUNDS must be 2); the second step runs on structure T_* */
#ifdef REROUTE
#if REROUTE == 1   /* N=3, after step 1 on the chain 2 -> 1 -> 0: node 1 has become a pit, 2 -> 1 */
static const uint64_t T_rec[3] = {0, 1, 1}; static const uint64_t T_cnt[3] = {1, 1, 1}; static const uint64_t T_dfs[3] = {0, 1, 2};
#elif REROUTE == 2 /* N=4 single, after step 1 on struct 2: 3 self (pit), 1 -> 3, 2 -> 0 */
static const uint64_t T_rec[4] = {0, 3, 0, 3}; static const uint64_t T_cnt[4] = {1, 1, 1, 1}; static const uint64_t T_dfs[4] = {0, 2, 3, 1};
#elif REROUTE == 3 /* N=4 multi (D=2), after step 1 on struct 3: 3 self (pit); 1 -> {0, 3}; 2 -> {3}; 0 self */
static const uint64_t T_rec[8] = {0, 0, 0, 3, 3, 0, 3, 0}; static const uint64_t T_cnt[4] = {1, 2, 1, 1}; static const uint64_t T_dfs[4] = {0, 3, 1, 2};
#endif
#define Q_rec T_rec
#define Q_cnt T_cnt
#define Q_dfs T_dfs
#else
#define Q_rec S_rec
#define Q_cnt S_cnt
#define Q_dfs S_dfs
#endif

fsv_f64 in_e[N], in_e2[N], in_area[N], in_k[N], in_w[N * R], in_dist[N * R], in_dt[1], in_m[1];

static void oracle(const fsv_f64* e, fsv_f64* er)
{
  for (int p = 0; p < N; p++) {
    uint64_t i = Q_dfs[p];
    er[i] = 0.0;
    if (Q_cnt[i] == 1 && Q_rec[i * R] == i) continue;
    fsv_f64 flooded = DBL_MAX;
    for (int r = 0; r < (int)Q_cnt[i]; r++) { uint64_t j = Q_rec[i * R + r]; fsv_f64 nx = e[j] - er[j]; if (nx < flooded) flooded = nx; }
    if (e[i] <= flooded) continue;
    fsv_f64 num = e[i], den = 1.0;
    for (int r = 0; r < (int)Q_cnt[i]; r++) {
      uint64_t j = Q_rec[i * R + r];
      fsv_f64 nx = e[j] - er[j];
      if (e[j] > e[i]) continue;
      fsv_f64 f = (K_SCALAR ? in_k[0] : in_k[i]) * in_dt[0] * FSV_POW(in_area[i] * in_w[i * R + r], in_m[0]);
      f /= in_dist[i * R + r];
      num += f * nx;
      den += f;
    }
    fsv_f64 upd = num / den;
    if (upd < flooded) upd = flooded + DBL_MIN;
    er[i] = e[i] - upd;
  }
}

void fsv_harness(void)
{
  fsv_f64 erosion[N], want[N];
  uint64_t ncorr = 0;
  FSV_IN_F64(in_e, N); FSV_IN_F64(in_area, N); FSV_IN_F64(in_k, N); FSV_IN_F64(in_w, N * R); FSV_IN_F64(in_dist, N * R);
  FSV_IN_F64(in_dt, 1);
#ifdef MEXP
  in_m[0] = MEXP;
#else
  FSV_IN_F64(in_m, 1);
#endif
#if ROUNDS == 2
  FSV_IN_F64(in_e2, N);
  for (int i = 0; i < N; i++) FSV_ASSUME(FSV_ISFINITE(in_e2[i]));
#endif
  for (int i = 0; i < N; i++) {
    FSV_ASSUME(FSV_ISFINITE(in_e[i]) && FSV_ISFINITE(in_area[i]) && in_area[i] >= 0.0 && FSV_ISFINITE(in_k[i]) && in_k[i] >= 0.0);
    for (int r = 0; r < R; r++) {
      FSV_ASSUME(FSV_ISFINITE(in_dist[i * R + r]) && in_dist[i * R + r] > 0.0);
#if SINGLE
      FSV_ASSUME(in_w[i * R + r] == 1.0);
#else
      FSV_ASSUME(in_w[i * R + r] >= 0.0 && in_w[i * R + r] <= 1.0);
#endif
    }
  }
  FSV_ASSUME(FSV_ISFINITE(in_dt[0]) && in_dt[0] >= 0.0 && FSV_ISFINITE(in_m[0]) && in_m[0] > 0.0);
#ifdef REROUTE
  FSV_MAY_THROW(fsv_spl_erode_rerouted(S_rec, S_cnt, in_w, in_dist, S_dfs, in_e, in_area, in_k, K_SCALAR, in_m[0], 1.0, 1e-3, in_dt[0], in_e2, erosion, &ncorr, T_rec, T_cnt, T_dfs));
#else
  FSV_MAY_THROW(fsv_spl_erode(S_rec, S_cnt, in_w, in_dist, S_dfs, in_e, in_area, in_k, K_SCALAR, in_m[0], 1.0, 1e-3, in_dt[0], ROUNDS, in_e2, erosion, &ncorr));
#endif
  for (int i = 0; i < N; i++) FSV_OBS_F64(erosion[i]);
  oracle(ROUNDS == 2 ? in_e2 : in_e, want);
  const fsv_f64* e = ROUNDS == 2 ? in_e2 : in_e;
  for (int i = 0; i < N; i++) {
#ifdef ONLY_NODE
    if (i != ONLY_NODE) continue;
#endif
    if (Q_cnt[i] == 1 && Q_rec[i * R] == (uint64_t)i) FSV_ASSERT(erosion[i] == 0.0, "no erosion at outlets and pits (self receivers)");
    FSV_ASSERT(erosion[i] == want[i] || (FSV_ISNAN(erosion[i]) && FSV_ISNAN(want[i])),
               "erosion equals the direct solution of the backward-Euler discrete equation (limited at the receivers' new level, zero in lakes)");
  }
  FSV_END();
}
