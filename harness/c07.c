/* C07: neighbourhood of a SYMBOLIC node of a real raster grid (fixed-size accessor layer), cache on / off, with or
 * without a previous look-up of another symbolic node, and a repeated look-up served from the cache.
 * Defines: ROWS, COLS, D, CONN (0 rook, 1 queen, 2 bishop), HLOOP, VLOOP (0/1), WARM (0/1), DY, DX
 */
#include "fsv_harness.h"
#include "unit.h"
#define NN (ROWS * COLS)
uint64_t in_q[2];
void fsv_harness(void)
{
  uint64_t n_c, idx_c[D], n_n, idx_n[D], n_a, idx_a[D];
  fsv_f64 dist_c[D], dist_n[D];
  uint8_t st_c[D], st_n[D];
  FSV_IN_U64(in_q, 2, 0, NN - 1);
  uint8_t l = HLOOP ? 3 : 1, r = HLOOP ? 3 : 2, t = VLOOP ? 3 : 0, b = VLOOP ? 3 : 1;
  FSV_MAY_THROW(fsv_raster_nb(l, r, t, b, DY, DX, WARM, in_q[0], in_q[1], &n_c, idx_c, dist_c, st_c, &n_n, idx_n, dist_n, st_n, &n_a, idx_a));
  FSV_OBS_U64(n_c); FSV_OBS_U64(n_n);
  for (int k = 0; k < D; k++) if ((uint64_t)k < n_c) { FSV_OBS_U64(idx_c[k]); FSV_OBS_F64(dist_c[k]); FSV_OBS_U64(st_c[k]); FSV_OBS_U64(idx_n[k]); }

  /* expected neighbourhood from the geometry */
  uint64_t q = in_q[1], row = q / COLS, col = q % COLS;
  int cnt_want[NN]; fsv_f64 dist_want[NN];
  for (int i = 0; i < NN; i++) cnt_want[i] = 0;
  int total = 0;
  for (int dr = -1; dr <= 1; dr++) for (int dc = -1; dc <= 1; dc++) {
    if (dr == 0 && dc == 0) continue;
    if (CONN == 0 && dr != 0 && dc != 0) continue;
    if (CONN == 2 && (dr == 0 || dc == 0)) continue;
    int rr = (int)row + dr, cc = (int)col + dc;
    if (rr < 0 || rr >= ROWS) { if (!VLOOP) continue; rr = (rr + ROWS) % ROWS; }
    if (cc < 0 || cc >= COLS) { if (!HLOOP) continue; cc = (cc + COLS) % COLS; }
    cnt_want[rr * COLS + cc]++; total++;
    fsv_f64 y = dr ? DY : 0.0, x = dc ? DX : 0.0;
    dist_want[rr * COLS + cc] = sqrt(y * y + x * x);
  }
  /* status oracle (borders as given above, corners by precedence fixed value > fixed gradient > looped > core) */
  FSV_ASSERT(n_c == (uint64_t)total, "neighbour count equals the number of one-step neighbours under the connectivity");
  FSV_ASSERT(n_n == n_c && n_a == n_c, "count agrees with the cache disabled and on a repeated look-up");
  for (int i = 0; i < NN; i++) {
    int got_c = 0, got_n = 0, got_a = 0;
    for (int k = 0; k < D; k++) if ((uint64_t)k < n_c) {
      if (idx_c[k] == (uint64_t)i) { got_c++; FSV_ASSERT(dist_c[k] == dist_want[i], "distance is the Euclidean step length from the spacing"); }
      if (idx_n[k] == (uint64_t)i) { got_n++; FSV_ASSERT(dist_n[k] == dist_want[i], "distance (cache disabled)"); }
      if (idx_a[k] == (uint64_t)i) got_a++;
    }
    FSV_ASSERT(got_c == cnt_want[i], "neighbours are exactly the one-step nodes (wrapping only across looped borders)");
    FSV_ASSERT(got_n == cnt_want[i], "same neighbours with the cache disabled (and after another node was queried)");
    FSV_ASSERT(got_a == cnt_want[i], "same neighbours on a repeated look-up served from the cache");
  }
  for (int k = 0; k < D; k++) if ((uint64_t)k < n_c && idx_c[k] < NN) {
    uint64_t j = idx_c[k]; int jr = j / COLS, jc = j % COLS;
    uint8_t s = 0; int have = 0;
#define PR(x) ((x) == 1 ? 3 : (x) == 2 ? 2 : (x) == 3 ? 1 : 0)
    if (jc == 0) { s = l; have = 1; }
    if (jc == COLS - 1) { if (!have || PR(r) > PR(s)) s = r; have = 1; }
    if (jr == 0) { if (!have || PR(t) > PR(s)) s = t; have = 1; }
    if (jr == ROWS - 1) { if (!have || PR(b) > PR(s)) s = b; have = 1; }
    FSV_ASSERT(st_c[k] == s, "reported status is the neighbour's own status");
  }
  FSV_END();
}
