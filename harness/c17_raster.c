/* C17: raster node status composition for ALL 4^4 border status combinations (symbolic), optional single override.
 * Defines: ROWS, COLS, OVERRIDE (0 none / 1 one symbolic override entry incl. out-of-range and looped) */
#include "fsv_harness.h"
#include "unit.h"
uint8_t in_b[4];      /* left, right, top, bottom */
uint64_t in_ov[2];    /* row, col */
uint8_t in_os[1];
static int prio(uint8_t s) { return s == 1 ? 3 : s == 2 ? 2 : s == 3 ? 1 : 0; }
void fsv_harness(void)
{
  uint8_t out[ROWS * COLS], want[ROWS * COLS];
#ifdef CL  /* concrete border statuses per query (exhaustive enumeration through the encoder) */
  FSV_IN_U8(in_b, 4, 0, 3);
  in_b[0] = CL; in_b[1] = CR; in_b[2] = CT; in_b[3] = CB;
#else
  FSV_IN_U8(in_b, 4, 0, 3);
#endif
#if OVERRIDE
  FSV_IN_U64(in_ov, 2, 0, 4); FSV_IN_U8(in_os, 1, 0, 3);
#ifdef COR
  in_ov[0] = COR; in_ov[1] = COC; in_os[0] = COS;
#endif
#endif
  uint8_t l = in_b[0], r = in_b[1], t = in_b[2], b = in_b[3];
  int bad = ((l == 3) != (r == 3)) || ((t == 3) != (b == 3));
  for (int i = 0; i < ROWS; i++) for (int j = 0; j < COLS; j++) {
    uint8_t s = 0; int have = 0;
    /* borders; at corners the higher-precedence status wins (fixed value > fixed gradient > looped > core) */
    if (j == 0) { s = l; have = 1; }
    if (j == COLS - 1) { if (!have || prio(r) > prio(s)) s = r; have = 1; }
    if (i == 0) { if (!have || prio(t) > prio(s)) s = t; have = 1; }
    if (i == ROWS - 1) { if (!have || prio(b) > prio(s)) s = b; have = 1; }
    want[i * COLS + j] = s;
  }
#if OVERRIDE
  if (!bad) {
    if (in_ov[0] >= ROWS || in_ov[1] >= COLS) bad = 1;
    else if (in_os[0] == 3) bad = 1;
    else if (want[in_ov[0] * COLS + in_ov[1]] == 3) bad = 1;
    else want[in_ov[0] * COLS + in_ov[1]] = in_os[0];
  }
#endif
  fsv_expect_throw = bad;
  FSV_MAY_THROW(fsv_raster_status(l, r, t, b, OVERRIDE, in_ov[0], in_ov[1], in_os[0], out));
  for (int k = 0; k < ROWS * COLS; k++) { FSV_OBS_U64(out[k]); FSV_ASSERT(out[k] == want[k], "node status equals the documented composition (borders, corner precedence, overrides)"); }
  FSV_END();
}
