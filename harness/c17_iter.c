/* C17 / C08: status-filtered node iteration on a real profile grid; default base levels.
 * Defines: N, LEFT, RIGHT (concrete border statuses 0..3), FILTER (0..3 or 255 = none), DIR (0 forward / 1 reverse),
 *          BASE (1: check the default base levels instead of iterating) */
#include "fsv_harness.h"
#include "unit.h"
uint8_t in_dummy[1];
void fsv_harness(void)
{
  uint8_t st[N];
  FSV_IN_U8(in_dummy, 1, 0, 1);
  for (int i = 0; i < N; i++) st[i] = 0;
  st[0] = LEFT; st[N - 1] = RIGHT;
  int bad = (LEFT == 3) != (RIGHT == 3);
  fsv_expect_throw = bad;
#if BASE
  uint8_t isb[N];
  FSV_MAY_THROW(fsv_default_base_levels(LEFT, RIGHT, isb));
  for (int i = 0; i < N; i++) { FSV_OBS_U64(isb[i]); FSV_ASSERT(isb[i] == (st[i] == 1), "default base levels are exactly the fixed-value nodes"); }
#else
  uint64_t out[N + 2], n = 0;
  FSV_MAY_THROW(fsv_iterate(LEFT, RIGHT, FILTER, DIR, out, &n));
  uint64_t want[N], k = 0;
  for (int j = 0; j < N; j++) { int i = DIR ? N - 1 - j : j; if (FILTER == 255 || st[i] == FILTER) want[k++] = i; }
  FSV_OBS_U64(n);
  FSV_ASSERT(n == k, "iteration yields exactly as many indices as nodes matching the filter");
  for (int j = 0; j < N; j++) if ((uint64_t)j < k && (uint64_t)j < n) { FSV_OBS_U64(out[j]); FSV_ASSERT(out[j] == want[j], "indices come in increasing (forward) / decreasing (reverse) order"); }
#endif
  FSV_END();
}
