/* C12: sign, lakes and no-reversal clauses of one stream-power step on a CONCRETE structure with SYMBOLIC values,
 * asserted on the eroder's OUTPUT only (no re-implementation of the solve).
 * Defines: N, D, SINGLE, STRUCT, K_SCALAR, ONLY_NODE, MEXP, NEXP (slope exponent; 1.0 = linear path), CLAUSE:
 *   1: zero erosion at self receivers; zero erosion when the node is not above the lowest new receiver level (lake)
 *   2: the node is not lowered below the lowest post-erosion elevation among its receivers (beyond rounding)
 *   3: erosion is not negative beyond rounding, and not NaN
 */
#include "fsv_harness.h"
#include "unit.h"
#if SINGLE
#define R 1
#else
#define R D
#endif
#if STRUCT == 1
static const uint64_t S_rec[3] = {0, 0, 1}; static const uint64_t S_cnt[3] = {1, 1, 1}; static const uint64_t S_dfs[3] = {0, 1, 2};
#elif STRUCT == 2
static const uint64_t S_rec[4] = {0, 0, 0, 1}; static const uint64_t S_cnt[4] = {1, 1, 1, 1}; static const uint64_t S_dfs[4] = {0, 1, 3, 2};
#elif STRUCT == 3
static const uint64_t S_rec[8] = {0, 0, 0, 0, 0, 0, 1, 2}; static const uint64_t S_cnt[4] = {1, 1, 1, 2}; static const uint64_t S_dfs[4] = {0, 1, 2, 3};
#elif STRUCT == 4
static const uint64_t S_rec[4] = {0, 0, 3, 3}; static const uint64_t S_cnt[4] = {1, 1, 1, 1}; static const uint64_t S_dfs[4] = {0, 1, 3, 2};
#endif
#ifndef NEXP
#define NEXP 1.0
#endif
fsv_f64 in_e[N], in_area[N], in_k[N], in_w[N * R], in_dist[N * R], in_dt[1];

void fsv_harness(void)
{
  fsv_f64 erosion[N];
  uint64_t ncorr = 0;
  FSV_IN_F64(in_e, N); FSV_IN_F64(in_area, N); FSV_IN_F64(in_k, N); FSV_IN_F64(in_w, N * R); FSV_IN_F64(in_dist, N * R); FSV_IN_F64(in_dt, 1);
  for (int i = 0; i < N; i++) {
    /* documented domain; magnitudes bounded so that products stay finite ("extreme products" that overflow are excluded here) */
    FSV_ASSUME(FSV_ISFINITE(in_e[i]) && in_e[i] >= -1e15 && in_e[i] <= 1e15);
    FSV_ASSUME(FSV_ISFINITE(in_area[i]) && in_area[i] >= 0.0 && in_area[i] <= 1e15 && FSV_ISFINITE(in_k[i]) && in_k[i] >= 0.0 && in_k[i] <= 1e6);
    for (int r = 0; r < R; r++) {
      FSV_ASSUME(in_dist[i * R + r] >= 1e-3 && in_dist[i * R + r] <= 1e6);
#if SINGLE
      FSV_ASSUME(in_w[i * R + r] == 1.0);
#else
      FSV_ASSUME(in_w[i * R + r] >= 0.0 && in_w[i * R + r] <= 1.0);
#endif
    }
  }
  FSV_ASSUME(in_dt[0] >= 0.0 && in_dt[0] <= 1e9);
  FSV_MAY_THROW(fsv_spl_erode(S_rec, S_cnt, in_w, in_dist, S_dfs, in_e, in_area, in_k, K_SCALAR, MEXP, NEXP, 1e-3, in_dt[0], 1, in_e, erosion, &ncorr));
  for (int i = 0; i < N; i++) FSV_OBS_F64(erosion[i]);
  int i = ONLY_NODE;
  int self = (S_cnt[i] == 1 && S_rec[i * R] == (uint64_t)i);
  fsv_f64 flooded = DBL_MAX;
  for (int r = 0; r < (int)S_cnt[i]; r++) { uint64_t j = S_rec[i * R + r]; fsv_f64 nx = in_e[j] - erosion[j]; if (nx < flooded) flooded = nx; }
  fsv_f64 ae = in_e[i] < 0 ? -in_e[i] : in_e[i], af = flooded < 0 ? -flooded : flooded;
  fsv_f64 tol = (ae + af) * 0x1p-50 + DBL_MIN * 4;
#if CLAUSE == 1
  if (self) FSV_ASSERT(erosion[i] == 0.0, "no erosion at outlets and pits (self receivers)");
  else if (in_e[i] <= flooded) FSV_ASSERT(erosion[i] == 0.0, "no erosion for a node at or below the new level of its lowest receiver (lake)");
#elif CLAUSE == 2
  if (!self) FSV_ASSERT(in_e[i] - erosion[i] >= flooded - tol || in_e[i] <= flooded, "node is not lowered below the lowest post-erosion receiver elevation");
#else
  FSV_ASSERT(!FSV_ISNAN(erosion[i]), "erosion is not NaN");
  FSV_ASSERT(erosion[i] >= -tol, "erosion is not negative beyond rounding");
#endif
  FSV_END();
}
