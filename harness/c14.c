/* C14: one step of the diffusion eroder on a real raster grid equals the two-half-step Peaceman-Rachford ADI scheme
 * (implicit along columns of each interior row, then along rows of each interior column; face-averaged diffusivity;
 * fixed-value borders), each tridiagonal system solved by forward elimination / back substitution.  The reference is
 * built here from the statement and evaluated in the same operation order, so that equal results are equal bit for bit.
 * Defines: ROWS, COLS, K_SCALAR (1/0), DY, DX, ONLY (flat index asserted; -1 = all), ROUNDS
 */
#include "fsv_harness.h"
#include "unit.h"
#define NN (ROWS * COLS)
#ifndef ROUNDS
#define ROUNDS 1
#endif
#ifndef ONLY
#define ONLY -1
#endif
#ifndef STATUS
#define STATUS 1
#endif
fsv_f64 in_e[NN], in_e2[NN], in_k[NN], in_dt[1];

/* factors: f[which][3][r][c] ; which 0 = row factors (neighbours r-1, r, r+1), 1 = col factors */
static fsv_f64 FR[3][ROWS][COLS], FC[3][ROWS][COLS];

static void factors(void)
{
  fsv_f64 dy = DY, dx = DX;
  if (K_SCALAR) {
    fsv_f64 fr = in_k[0] * 0.5 / (dy * dy), fc = in_k[0] * 0.5 / (dx * dx);
    for (int w = 0; w < 3; w++) for (int r = 0; r < ROWS; r++) for (int c = 0; c < COLS; c++) { FR[w][r][c] = 1.0 * fr; FC[w][r][c] = 1.0 * fc; }
  } else {
    fsv_f64 fr = 0.25 / (dy * dy), fc = 0.25 / (dx * dx);
#define K(r, c) in_k[(r) * COLS + (c)]
    for (int r = 1; r < ROWS - 1; r++) for (int c = 1; c < COLS - 1; c++) {
      FR[0][r][c] = fr * (K(r - 1, c) + K(r, c));
      FR[1][r][c] = fr / 2 * (K(r - 1, c) + 2 * K(r, c) + K(r + 1, c));
      FR[2][r][c] = fr * (K(r, c) + K(r + 1, c));
      FC[0][r][c] = fc * (K(r, c - 1) + K(r, c));
      FC[1][r][c] = fc / 2 * (K(r, c - 1) + 2 * K(r, c) + K(r, c + 1));
      FC[2][r][c] = fc * (K(r, c) + K(r, c + 1));
    }
  }
}

#define MAXD (ROWS > COLS ? ROWS : COLS)
static void thomas(int n, const fsv_f64* lower, const fsv_f64* diag, const fsv_f64* upper, const fsv_f64* vec, fsv_f64* res)
{
  fsv_f64 gam[MAXD];
  fsv_f64 bet = diag[0];
  res[0] = vec[0] / bet;
  for (int i = 1; i < n; i++) { gam[i] = upper[i - 1] / bet; bet = diag[i] - lower[i] * gam[i]; res[i] = (vec[i] - lower[i] * res[i - 1]) / bet; }
  for (int i = n - 2; i > -1; i--) res[i] -= gam[i + 1] * res[i + 1];
}

/* one half step: implicit along the second index of `in` (size n1 x n2), explicit along the first; fa = factors along
   the explicit direction, fb = along the implicit direction, both indexed [w][i1][i2] in the layout of `in` */
static void half(int n1, int n2, fsv_f64 in[MAXD][MAXD], fsv_f64 fa[3][MAXD][MAXD], fsv_f64 fb[3][MAXD][MAXD], fsv_f64 dt, fsv_f64 out[MAXD][MAXD])
{
  for (int a = 0; a < n1; a++) for (int b = 0; b < n2; b++) out[a][b] = in[a][b];
  for (int a = 1; a < n1 - 1; a++) {
    fsv_f64 lower[MAXD], diag[MAXD], upper[MAXD], vec[MAXD], res[MAXD];
    for (int b = 0; b < n2; b++) { lower[b] = -1 * fb[0][a][b] * dt; diag[b] = 1 + 2 * fb[1][a][b] * dt; upper[b] = -1 * fb[2][a][b] * dt; }
    for (int b = 1; b < n2 - 1; b++) vec[b] = ((1 - 2 * fa[1][a][b] * dt) * in[a][b] + fa[0][a][b] * in[a - 1][b] * dt + fa[2][a][b] * in[a + 1][b] * dt);
    lower[0] = 0; lower[n2 - 1] = 0; diag[0] = 1; diag[n2 - 1] = 1; upper[0] = 0; upper[n2 - 1] = 0; vec[0] = in[a][0]; vec[n2 - 1] = in[a][n2 - 1];
    thomas(n2, lower, diag, upper, vec, res);
    for (int b = 0; b < n2; b++) out[a][b] = res[b];
  }
}

void fsv_harness(void)
{
  fsv_f64 erosion[NN];
  FSV_IN_F64(in_e, NN); FSV_IN_F64(in_k, NN); FSV_IN_F64(in_dt, 1);
  for (int i = 0; i < NN; i++) FSV_ASSUME(FSV_ISFINITE(in_e[i]) && FSV_ISFINITE(in_k[i]) && in_k[i] > 0.0);
#if ROUNDS == 2
  FSV_IN_F64(in_e2, NN);
  for (int i = 0; i < NN; i++) FSV_ASSUME(FSV_ISFINITE(in_e2[i]));
#endif
  FSV_ASSUME(FSV_ISFINITE(in_dt[0]) && in_dt[0] >= 0.0);
  /* the solver's "division by zero while solving tri-diagonal system" error is permitted, not required: the claim is
     about steps that return a result */
  FSV_THROW_ALLOWED(fsv_adi(in_e, in_k, K_SCALAR, in_dt[0], DY, DX, STATUS, ROUNDS, in_e2, erosion));
  for (int i = 0; i < NN; i++) FSV_OBS_F64(erosion[i]);
  const fsv_f64* e = ROUNDS == 2 ? in_e2 : in_e;
  factors();
  static fsv_f64 E0[MAXD][MAXD], E1[MAXD][MAXD], E1T[MAXD][MAXD], E2T[MAXD][MAXD], FRp[3][MAXD][MAXD], FCp[3][MAXD][MAXD], FRt[3][MAXD][MAXD], FCt[3][MAXD][MAXD];
  for (int r = 0; r < ROWS; r++) for (int c = 0; c < COLS; c++) {
    E0[r][c] = e[r * COLS + c];
    for (int w = 0; w < 3; w++) { FRp[w][r][c] = FR[w][r][c]; FCp[w][r][c] = FC[w][r][c]; FRt[w][c][r] = FR[w][r][c]; FCt[w][c][r] = FC[w][r][c]; }
  }
  half(ROWS, COLS, E0, FRp, FCp, in_dt[0], E1);                 /* implicit along columns index (within each row) */
  for (int r = 0; r < ROWS; r++) for (int c = 0; c < COLS; c++) E1T[c][r] = E1[r][c];
  half(COLS, ROWS, E1T, FCt, FRt, in_dt[0], E2T);                /* then implicit along rows (transposed problem) */
  for (int r = 0; r < ROWS; r++) for (int c = 0; c < COLS; c++) {
    int i = r * COLS + c;
    if (ONLY >= 0 && i != ONLY) continue;
    fsv_f64 want = e[i] - E2T[c][r];
    FSV_ASSERT(erosion[i] == want || (FSV_ISNAN(erosion[i]) && FSV_ISNAN(want)), "erosion equals old elevation minus the two-half-step ADI solution (zero on the borders for finite intermediates)");
  }
  FSV_END();
}
