/* Arithmetic lemma used as an assumption by slope-based harnesses (assume-guarantee):
 * for all finite binary64 a, b and every finite d > 0:  s = (a - b) / d  satisfies
 *   a <= b  =>  !(s > 0)      and      a > b  =>  !(s < 0)  and s is not NaN unless a-b overflows (never NaN here)
 * DCONST: concrete divisor (hex float); otherwise d is symbolic.
 */
#include "fsv_harness.h"
#include "unit.h"
fsv_f64 in_a[1], in_b[1], in_d[1];
void fsv_harness(void)
{
  FSV_IN_F64(in_a, 1); FSV_IN_F64(in_b, 1);
#ifdef DCONST
  in_d[0] = DCONST;
#else
  FSV_IN_F64(in_d, 1);
#endif
  FSV_ASSUME(FSV_ISFINITE(in_a[0]) && FSV_ISFINITE(in_b[0]) && FSV_ISFINITE(in_d[0]) && in_d[0] > 0.0);
  fsv_f64 s = fsv_slope(in_a[0], in_b[0], in_d[0]);
  FSV_OBS_F64(s);
  FSV_ASSERT(!FSV_ISNAN(s), "slope of finite operands is not NaN");
  if (in_a[0] <= in_b[0]) FSV_ASSERT(!(s > 0.0), "a <= b implies slope not positive");
  if (in_a[0] > in_b[0]) FSV_ASSERT(!(s < 0.0), "a > b implies slope not negative");
  FSV_END();
}
