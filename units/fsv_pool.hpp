// Harness-side replacement of the worker pool for SEQUENTIAL-EQUIVALENCE units: an explicit specialisation of
// fastscapelib::thread_pool<std::size_t> whose run_blocks executes the blocks one after the other in the caller's
// thread.  The partition is computed by the REAL thread_pool<T>::blocks arithmetic (instantiated for another
// 64-bit unsigned type).  pause/resume/resize only record the size.  Interleavings are the subject of C10/C11.
#ifndef FSV_POOL_HPP
#define FSV_POOL_HPP
#include <vector>
#include <cassert>
#include <mutex>
#include <cstdint>
#include "fastscapelib/utils/thread_pool.hpp"

namespace fastscapelib
{
    template <>
    class thread_pool<std::size_t>
    {
    public:
        using real_blocks = thread_pool<unsigned long long>::blocks;
        explicit thread_pool(std::size_t size)
            : m_size(size)
        {
        }
        void pause() {}
        void resume() {}
        void resize(std::size_t size) { m_size = size; }
        std::size_t size() const { return m_size; }
        template <typename F>
        void run_blocks(const std::size_t first_index, const std::size_t index_after_last, F&& func, const std::size_t min_size = 0)
        {
            if (index_after_last > first_index)
            {
                const real_blocks blks(first_index, index_after_last, m_size, min_size);
                for (std::size_t i = 0; i < m_size; ++i)
                    if (i < blks.num_blocks())
                        func(i, static_cast<std::size_t>(blks.start(i)), static_cast<std::size_t>(blks.end(i)));
            }
        }
    private:
        std::size_t m_size;
    };
}
#endif
