// Unit: neighbour look-up of real raster grids (fixed-size layer: neighbors_count, get_nb_indices_from_cache incl. the
// neighbours cache logic, neighbors_indices_impl, neighbors_distances_impl, nodes_status) for a SYMBOLIC node index.
#include "fsv_unit.hpp"
#include "fastscapelib/grid/raster_grid.hpp"
namespace fs = fastscapelib;
#ifndef FSV_ROWS
#define FSV_ROWS 3
#endif
#ifndef FSV_COLS
#define FSV_COLS 3
#endif
#ifndef FSV_RC
#define FSV_RC rook
#endif
#ifndef FSV_D
#define FSV_D 4
#endif
using grid_c = fs::raster_grid<fs::xt_selector, fs::raster_connect::FSV_RC>;                              // cache
using grid_n = fs::raster_grid<fs::xt_selector, fs::raster_connect::FSV_RC, fs::neighbors_no_cache<FSV_D>>;  // no cache

template <class G>
static void
query(G& g, uint64_t q, uint64_t* n, uint64_t* idx, double* dist, uint8_t* st)
{
    *n = g.neighbors_count(q);
    const auto& a = g.get_nb_indices_from_cache(q);
    const auto& d = g.neighbors_distances_impl(q);
    for (unsigned k = 0; k < FSV_D; k++)
    {
        idx[k] = a[k];
        dist[k] = d[k];
        st[k] = (k < *n && a[k] < FSV_ROWS * FSV_COLS) ? static_cast<uint8_t>(g.nodes_status(a[k])) : 255;
    }
}

FSV_API int
fsv_raster_nb(uint8_t left, uint8_t right, uint8_t top, uint8_t bottom, double dy, double dx, int warm, uint64_t q1, uint64_t q2,
              uint64_t* n_c, uint64_t* idx_c, double* dist_c, uint8_t* st_c, uint64_t* n_n, uint64_t* idx_n, double* dist_n, uint8_t* st_n,
              uint64_t* n_again, uint64_t* idx_again)
{
    FSV_TRY
    {
        std::array<fs::node_status, 4> bs{ static_cast<fs::node_status>(left), static_cast<fs::node_status>(right),
                                           static_cast<fs::node_status>(top), static_cast<fs::node_status>(bottom) };
        typename grid_c::shape_type shape{ { FSV_ROWS, FSV_COLS } };
        grid_c gc(shape, { dy, dx }, fs::raster_boundary_status(bs));
        grid_n gn(shape, { dy, dx }, fs::raster_boundary_status(bs));
        uint64_t tn, tidx[FSV_D];
        double td[FSV_D];
        uint8_t ts[FSV_D];
        if (warm)
        {
            // another node is looked up first (fills the cache entry of q1, and the shared buffer of the cache-less grid)
            query(gc, q1, &tn, tidx, td, ts);
            query(gn, q1, &tn, tidx, td, ts);
        }
        query(gc, q2, n_c, idx_c, dist_c, st_c);
        query(gn, q2, n_n, idx_n, dist_n, st_n);
        // second look-up of the same node (now served from the cache)
        query(gc, q2, n_again, idx_again, td, ts);
        return 0;
    }
    FSV_CATCH
}
