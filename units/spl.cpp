// Unit: spl_eroder (eroders/spl.hpp) over a thin harness flow-graph type that exposes a REAL flow_graph_impl whose
// tables are written directly (pre-state), so that no router has to run first.
#include "fsv_unit.hpp"
#include "fastscapelib/flow/flow_graph_impl.hpp"
#include "fastscapelib/flow/flow_operator.hpp"
#include "fastscapelib/eroders/spl.hpp"

namespace fs = fastscapelib;
#ifndef FSV_N
#define FSV_N 4
#endif
#ifndef FSV_D
#define FSV_D 2
#endif
#ifndef FSV_SINGLE
#define FSV_SINGLE 1
#endif
#define FSV_R (FSV_SINGLE ? 1 : FSV_D)

using grid_t = fsv::table_grid<FSV_N, FSV_D>;
using impl_t = fs::detail::flow_graph_impl<grid_t, fs::xt_selector, fs::flow_graph_fixed_array_tag>;

// what spl_eroder needs from its FG template argument: impl(), size(), grid_shape(), single_flow() and a few types
struct fsv_fg
{
    using container_selector = fs::xt_selector;
    using size_type = size_t;
    using data_type = double;
    using shape_type = std::vector<size_t>;
    impl_t& m_impl;
    bool m_single;
    fsv_fg(impl_t& i, bool s) : m_impl(i), m_single(s) {}
    const impl_t& impl() const { return m_impl; }
    size_type size() const { return FSV_N; }
    shape_type grid_shape() const { return { (size_t) FSV_N }; }
    bool single_flow() const { return m_single; }
};

static grid_t
make_grid()
{
    uint64_t cnt[FSV_N], nb[FSV_N * FSV_D];
    double dist[FSV_N * FSV_D];
    for (int i = 0; i < FSV_N; i++)
    {
        cnt[i] = 2 <= FSV_D ? 2 : 1;
        for (int k = 0; k < FSV_D; k++)
        {
            nb[i * FSV_D + k] = (i + (k == 0 ? FSV_N - 1 : 1)) % FSV_N;
            dist[i * FSV_D + k] = 1.0;
        }
    }
    return grid_t(FSV_N, cnt, nb, dist, nullptr, nullptr);
}

// classification of the slope exponent: returns m_linear after set_slope_exp(n) on a single-direction graph;
// on a multiple-direction graph (single == 0) a non-linear exponent must throw
FSV_API int
fsv_spl_linear(double n, int single, int* linear)
{
    FSV_TRY
    {
        grid_t grid = make_grid();
        impl_t impl(grid, single != 0);
        fsv_fg fg(impl, single != 0);
        fs::spl_eroder<fsv_fg> eroder(fg, 1e-3, 0.4, 1.0, 1e-3);
        eroder.set_slope_exp(n);
        *linear = eroder.m_linear ? 1 : 0;
        return 0;
    }
    FSV_CATCH
}

// one erosion step from a pre-state: receivers/counts/weights/distances/bottom-up order given, K per node or scalar
// rec2/rcount2/dfs2 (optional): the routes are CHANGED between the two steps (as update_routes does between two erode() calls)
static inline int
fsv_spl_erode_impl(const uint64_t* rec, const uint64_t* rcount, const double* weight, const double* rdist, const uint64_t* dfs,
                   const double* elev, const double* area, const double* kcoef, int k_scalar, double m_exp, double n_exp,
                   double tol, double dt, int rounds, const double* elev2, double* erosion, uint64_t* ncorr,
                   const uint64_t* rec2, const uint64_t* rcount2, const uint64_t* dfs2)
{
    FSV_TRY
    {
        grid_t grid = make_grid();
        impl_t impl(grid, FSV_SINGLE);
        for (int i = 0; i < FSV_N; i++)
        {
            impl.m_receivers_count(i) = FSV_SINGLE ? 1 : rcount[i];
            impl.m_dfs_indices(i) = dfs[i];
            for (int k = 0; k < FSV_R; k++)
            {
                impl.m_receivers(i, k) = rec[i * FSV_R + k];
                impl.m_receivers_weight(i, k) = weight[i * FSV_R + k];
                impl.m_receivers_distance(i, k) = rdist[i * FSV_R + k];
            }
        }
        fsv_fg fg(impl, FSV_SINGLE);
        using arr_t = xt::xarray<double>;
        arr_t e = xt::zeros<double>({ (size_t) FSV_N }), a = xt::zeros<double>({ (size_t) FSV_N }),
              kk = xt::zeros<double>({ (size_t) FSV_N });
        for (int i = 0; i < FSV_N; i++)
        {
            e.flat(i) = elev[i];
            a.flat(i) = area[i];
            kk.flat(i) = kcoef[i];
        }
        fs::spl_eroder<fsv_fg> eroder(fg, 1e-3, m_exp, n_exp, tol);
        if (k_scalar)
            eroder.set_k_coef(kcoef[0]);
        else
            eroder.set_k_coef(kk);
        const arr_t* res = &eroder.erode(e, a, dt);
        if (rounds == 2)
        {
            // second step on the same eroder object with another elevation field (stale erosion must not leak)
            for (int i = 0; i < FSV_N; i++)
                e.flat(i) = elev2[i];
            if (rec2)
                for (int i = 0; i < FSV_N; i++)
                {
                    impl.m_receivers_count(i) = FSV_SINGLE ? 1 : rcount2[i];
                    impl.m_dfs_indices(i) = dfs2[i];
                    for (int k = 0; k < FSV_R; k++)
                        impl.m_receivers(i, k) = rec2[i * FSV_R + k];
                }
            res = &eroder.erode(e, a, dt);
        }
        for (int i = 0; i < FSV_N; i++)
            erosion[i] = res->flat(i);
        *ncorr = eroder.n_corr();
        return 0;
    }
    FSV_CATCH
}

FSV_API int
fsv_spl_erode(const uint64_t* rec, const uint64_t* rcount, const double* weight, const double* rdist, const uint64_t* dfs,
              const double* elev, const double* area, const double* kcoef, int k_scalar, double m_exp, double n_exp,
              double tol, double dt, int rounds, const double* elev2, double* erosion, uint64_t* ncorr)
{
    return fsv_spl_erode_impl(rec, rcount, weight, rdist, dfs, elev, area, kcoef, k_scalar, m_exp, n_exp, tol, dt, rounds, elev2, erosion, ncorr,
                              nullptr, nullptr, nullptr);
}

FSV_API int
fsv_spl_erode_rerouted(const uint64_t* rec, const uint64_t* rcount, const double* weight, const double* rdist, const uint64_t* dfs,
                       const double* elev, const double* area, const double* kcoef, int k_scalar, double m_exp, double n_exp,
                       double tol, double dt, const double* elev2, double* erosion, uint64_t* ncorr,
                       const uint64_t* rec2, const uint64_t* rcount2, const uint64_t* dfs2)
{
    return fsv_spl_erode_impl(rec, rcount, weight, rdist, dfs, elev, area, kcoef, k_scalar, m_exp, n_exp, tol, dt, 2, elev2, erosion, ncorr,
                              rec2, rcount2, dfs2);
}
