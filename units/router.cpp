// Unit: flow routers on a flow_graph_impl (real library code), on a real profile grid or a table grid.
//   FSV_GRID = 0: real fastscapelib::profile_grid<> with FSV_N nodes (status/spacing from arguments)
//   FSV_GRID = 1: table grid (fsv_unit.hpp) with FSV_N nodes and at most FSV_D neighbours
//   FSV_CACHE = 1 (default): neighbors_cache<D>;  0: neighbors_no_cache<D>
#include "fsv_unit.hpp"
#include "fsv_pool.hpp"
#include "fastscapelib/grid/profile_grid.hpp"
#include "fastscapelib/flow/flow_graph_impl.hpp"
#include "fastscapelib/flow/flow_operator.hpp"
#include "fastscapelib/flow/flow_router.hpp"

namespace fs = fastscapelib;

#ifndef FSV_N
#define FSV_N 4
#endif
#ifndef FSV_D
#define FSV_D 2
#endif
#ifndef FSV_CACHE
#define FSV_CACHE 1
#endif

#if FSV_GRID == 0
#if FSV_CACHE
using grid_t = fs::profile_grid<>;
#else
using grid_t = fs::profile_grid<fs::xt_selector, fs::neighbors_no_cache<2>>;
#endif
#else
#if FSV_CACHE
using grid_t = fsv::table_grid<FSV_N, FSV_D>;
#else
using grid_t = fsv::table_grid<FSV_N, FSV_D, fs::neighbors_no_cache<FSV_D>>;
#endif
#endif
using real_impl_t = fs::detail::flow_graph_impl<grid_t, fs::xt_selector, fs::flow_graph_fixed_array_tag>;
// CUT (recorded in the evidence): the routers end by calling the traversal-order computations of the graph; those are
// decided separately (C06).  The derived type shadows exactly these two member functions with no-ops; every table the
// routers write is the real flow_graph_impl's.
struct lean_impl_t : public real_impl_t
{
    using real_impl_t::real_impl_t;
    using grid_type = grid_t;
    void compute_dfs_indices_bottomup() {}
    void compute_dfs_indices_topdown() {}
    void compute_bfs_indices_bottomup() {}
};
#if defined(FSV_FULL) && FSV_FULL
using impl_t = real_impl_t;
#else
using impl_t = lean_impl_t;
#endif
using single_impl_t = fs::detail::flow_operator_impl<impl_t, fs::single_flow_router, fs::flow_graph_fixed_array_tag>;
using multi_impl_t = fs::detail::flow_operator_impl<impl_t, fs::multi_flow_router, fs::flow_graph_fixed_array_tag>;

struct grid_args
{
    // profile
    uint8_t left, right;
    double spacing;
    // table
    const uint64_t* cnt;
    const uint64_t* nb;
    const double* dist;
    const uint8_t* status;
};

static grid_t
make_grid(const grid_args& g)
{
#if FSV_GRID == 0
    return grid_t(FSV_N, g.spacing, fs::profile_boundary_status(static_cast<fs::node_status>(g.left), static_cast<fs::node_status>(g.right)));
#else
    return grid_t(FSV_N, g.cnt, g.nb, g.dist, nullptr, g.status);
#endif
}

static void
setup(impl_t& impl, const uint8_t* mask, int use_mask, const uint64_t* bl, uint64_t nbl)
{
    std::vector<size_t> blv(bl, bl + nbl);
    impl.set_base_levels(blv);
    if (use_mask)
    {
        xt::xarray<bool> m = xt::zeros<bool>({ (size_t) FSV_N });
        for (int i = 0; i < FSV_N; i++)
            m.flat(i) = mask[i] != 0;
        impl.set_mask(m);
    }
}

// single-direction router: the sequential kernel only (private apply_seq; access control is off in unit TUs)
FSV_API void
fsv_single_seq(const double* elev, const uint8_t* mask, int use_mask, const uint64_t* bl, uint64_t nbl,
               uint8_t left, uint8_t right, double spacing, const uint64_t* cnt, const uint64_t* nb, const double* dist,
               const uint8_t* status, int threads,
               uint64_t* rec, double* rdist, double* rweight, uint64_t* rcount, uint64_t* dcount, uint64_t* donors)
{
    grid_args ga{ left, right, spacing, cnt, nb, dist, status };
    grid_t grid = make_grid(ga);
    impl_t impl(grid, true);
    setup(impl, mask, use_mask, bl, nbl);
    xt::xarray<double> e = xt::zeros<double>({ (size_t) FSV_N });
    for (int i = 0; i < FSV_N; i++)
        e.flat(i) = elev[i];
    // threads <= 1: sequential kernel; threads > 1: apply_par with the blocks run one after the other (fsv_pool.hpp)
    single_impl_t op(std::make_shared<fs::single_flow_router>(threads));
    fs::thread_pool<size_t> pool(10);
    op.apply(impl, e, pool);
    for (int i = 0; i < FSV_N; i++)
    {
        rec[i] = impl.m_receivers(i, 0);
        rdist[i] = impl.m_receivers_distance(i, 0);
        rweight[i] = impl.m_receivers_weight(i, 0);
        rcount[i] = impl.m_receivers_count(i);
        dcount[i] = impl.m_donors_count(i);
        for (int k = 0; k < FSV_D + 1; k++)
            donors[i * (FSV_D + 1) + k] = impl.m_donors(i, k);
    }
}

// multiple-direction router: apply() without the traversal orders is not separable (apply calls the DFS/BFS at its end),
// so the orders are computed too; rounds = 1 or 2 successive applications on the SAME graph object (stale state must not leak)
FSV_API void
fsv_multi(const double* elev, const double* elev2, int rounds, double p1, double p2, const uint8_t* mask, int use_mask,
          const uint64_t* bl, uint64_t nbl, uint8_t left, uint8_t right, double spacing, const uint64_t* cnt,
          const uint64_t* nb, const double* dist, uint64_t* rec, double* rdist, double* rweight, uint64_t* rcount,
          uint64_t* dcount, uint64_t* donors)
{
    grid_args ga{ left, right, spacing, cnt, nb, dist, nullptr };
    grid_t grid = make_grid(ga);
    impl_t impl(grid, false);
    setup(impl, mask, use_mask, bl, nbl);
    auto router = std::make_shared<fs::multi_flow_router>(p1);
    multi_impl_t op(router);
    fs::thread_pool<size_t>* pool = nullptr;  // unused by this operator
    xt::xarray<double> e = xt::zeros<double>({ (size_t) FSV_N });
    for (int r = 0; r < rounds; r++)
    {
        for (int i = 0; i < FSV_N; i++)
            e.flat(i) = r == 0 ? elev[i] : elev2[i];
        router->m_slope_exp = r == 0 ? p1 : p2;
        op.apply(impl, e, *pool);
    }
    for (int i = 0; i < FSV_N; i++)
    {
        rcount[i] = impl.m_receivers_count(i);
        dcount[i] = impl.m_donors_count(i);
        for (int k = 0; k < FSV_D; k++)
        {
            rec[i * FSV_D + k] = impl.m_receivers(i, k);
            rdist[i * FSV_D + k] = impl.m_receivers_distance(i, k);
            rweight[i * FSV_D + k] = impl.m_receivers_weight(i, k);
        }
        for (int k = 0; k < FSV_D + 1; k++)
            donors[i * (FSV_D + 1) + k] = impl.m_donors(i, k);
    }
}

// history independence of the routers (C09, router-only operator sequences): graph G1 processes call A
// (elevation A, base levels A, mask A) and then call B; a fresh graph G2 processes call B only; both states are returned.
// multi = 0: single_flow_router (threads as given), multi = 1: multi_flow_router (exponents pA then pB)
FSV_API void
fsv_history(int multi, int threads, const double* elevA, const uint8_t* maskA, int use_maskA, const uint64_t* blA, uint64_t nblA, double pA,
            double* elevB, const uint8_t* maskB, int use_maskB, const uint64_t* blB, uint64_t nblB, double pB,
            uint8_t left, uint8_t right, double spacing, const uint64_t* cnt, const uint64_t* nb, const double* dist,
            uint64_t* rec1, double* rdist1, double* rweight1, uint64_t* rcount1, uint64_t* dcount1, uint64_t* donors1,
            uint64_t* rec2, double* rdist2, double* rweight2, uint64_t* rcount2, uint64_t* dcount2, uint64_t* donors2)
{
    grid_args ga{ left, right, spacing, cnt, nb, dist, nullptr };
    grid_t grid1 = make_grid(ga);
    grid_t grid2 = make_grid(ga);
    const int R = multi ? FSV_D : 1;
    impl_t g1(grid1, !multi);
    impl_t g2(grid2, !multi);
    fs::thread_pool<size_t> pool(10);
    xt::xarray<double> e = xt::zeros<double>({ (size_t) FSV_N });
    // G1: operator objects created with the parameters of call A, changed for call B; G2: fresh objects with call B's
    auto srouter1 = std::make_shared<fs::single_flow_router>(threads);
    auto mrouter1 = std::make_shared<fs::multi_flow_router>(pA);
    single_impl_t sop1(srouter1);
    multi_impl_t mop1(mrouter1);
    auto srouter2 = std::make_shared<fs::single_flow_router>(threads);
    auto mrouter2 = std::make_shared<fs::multi_flow_router>(pB);
    single_impl_t sop2(srouter2);
    multi_impl_t mop2(mrouter2);
    auto run = [&](impl_t& g, single_impl_t& sop, multi_impl_t& mop, std::shared_ptr<fs::multi_flow_router>& mr, const double* el,
                   const uint8_t* mk, int um, const uint64_t* bl, uint64_t nbl, double p)
    {
        setup(g, mk, um, bl, nbl);
        for (int i = 0; i < FSV_N; i++)
            e.flat(i) = el[i];
        if (multi)
        {
            mr->m_slope_exp = p;
            mop.apply(g, e, pool);
        }
        else
            sop.apply(g, e, pool);
    };
    run(g1, sop1, mop1, mrouter1, elevA, maskA, use_maskA, blA, nblA, pA);
    run(g1, sop1, mop1, mrouter1, elevB, maskB, use_maskB, blB, nblB, pB);
    for (int i = 0; i < FSV_N; i++)
        elevB[i] = e.flat(i);  // what the operators left in the elevation array they were given
    run(g2, sop2, mop2, mrouter2, elevB, maskB, use_maskB, blB, nblB, pB);
    auto dump = [&](impl_t& g, uint64_t* rec, double* rdist, double* rweight, uint64_t* rcount, uint64_t* dcount, uint64_t* donors)
    {
        for (int i = 0; i < FSV_N; i++)
        {
            rcount[i] = g.m_receivers_count(i);
            dcount[i] = g.m_donors_count(i);
            for (int k = 0; k < R; k++)
            {
                rec[i * R + k] = g.m_receivers(i, k);
                rdist[i * R + k] = g.m_receivers_distance(i, k);
                rweight[i * R + k] = g.m_receivers_weight(i, k);
            }
            for (int k = 0; k < FSV_D + 1; k++)
                donors[i * (FSV_D + 1) + k] = g.m_donors(i, k);
        }
    };
    dump(g1, rec1, rdist1, rweight1, rcount1, dcount1, donors1);
    dump(g2, rec2, rdist2, rweight2, rcount2, dcount2, donors2);
}
