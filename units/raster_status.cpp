// Unit: raster_grid construction: node status composition (borders, corner precedence, optional single override)
#include "fsv_unit.hpp"
#include "fastscapelib/grid/raster_grid.hpp"
namespace fs = fastscapelib;
#ifndef FSV_ROWS
#define FSV_ROWS 3
#endif
#ifndef FSV_COLS
#define FSV_COLS 3
#endif
#ifndef FSV_RC
#define FSV_RC rook
#endif
using grid_t = fs::raster_grid<fs::xt_selector, fs::raster_connect::FSV_RC>;

FSV_API int
fsv_raster_status(uint8_t left, uint8_t right, uint8_t top, uint8_t bottom, int n_override, uint64_t orow, uint64_t ocol, uint8_t ostatus, uint8_t* out)
{
    FSV_TRY
    {
        std::array<fs::node_status, 4> bs{ static_cast<fs::node_status>(left), static_cast<fs::node_status>(right),
                                           static_cast<fs::node_status>(top), static_cast<fs::node_status>(bottom) };
        grid_t::shape_type shape{ { FSV_ROWS, FSV_COLS } };
        typename grid_t::nodes_status_map_type ov;
        if (n_override)
            ov[{ orow, ocol }] = static_cast<fs::node_status>(ostatus);
        grid_t grid(shape, { 1.0, 2.0 }, fs::raster_boundary_status(bs), ov);
        for (size_t i = 0; i < FSV_ROWS * FSV_COLS; i++)
            out[i] = static_cast<uint8_t>(grid.nodes_status().flat(i));
        return 0;
    }
    FSV_CATCH
}
