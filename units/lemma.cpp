// Unit: the slope expression of the routers, compiled by the same pipeline (used by the arithmetic lemma harness)
#include <cstdint>
extern "C" __attribute__((noinline)) double fsv_slope(double a, double b, double d) { return (a - b) / d; }
