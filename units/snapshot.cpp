// Unit: the copy step of graph / elevation snapshots (flow_operator_impl<FG, flow_snapshot>::_save) from an arbitrary
// source graph state (all tables written directly) into a fresh snapshot graph implementation of the same grid.
#include "fsv_unit.hpp"
#include "fastscapelib/flow/flow_graph_impl.hpp"
#include "fastscapelib/flow/flow_operator.hpp"
#include "fastscapelib/flow/flow_snapshot.hpp"
namespace fs = fastscapelib;
#ifndef FSV_N
#define FSV_N 4
#endif
#ifndef FSV_D
#define FSV_D 2
#endif
#ifndef FSV_SINGLE
#define FSV_SINGLE 1   // direction of the graph being snapshotted (and of its snapshot)
#endif
#define FSV_R (FSV_SINGLE ? 1 : FSV_D)
using grid_t = fsv::table_grid<FSV_N, FSV_D>;
using impl_t = fs::detail::flow_graph_impl<grid_t, fs::xt_selector, fs::flow_graph_fixed_array_tag>;
using snap_impl_t = fs::detail::flow_operator_impl<impl_t, fs::flow_snapshot, fs::flow_graph_fixed_array_tag>;

static grid_t
make_grid()
{
    uint64_t cnt[FSV_N], nb[FSV_N * FSV_D];
    double dist[FSV_N * FSV_D];
    for (int i = 0; i < FSV_N; i++)
    {
        cnt[i] = 2 <= FSV_D ? 2 : 1;
        for (int k = 0; k < FSV_D; k++)
        {
            nb[i * FSV_D + k] = (i + (k == 0 ? FSV_N - 1 : 1)) % FSV_N;
            dist[i * FSV_D + k] = 1.0;
        }
    }
    return grid_t(FSV_N, cnt, nb, dist, nullptr, nullptr);
}

struct tables
{
    uint64_t* rec;      // N x R
    uint64_t* rcount;   // N
    double* rdist;      // N x R
    double* rweight;    // N x R
    uint64_t* donors;   // N x (D+1)
    uint64_t* dcount;   // N
    uint64_t* dfs;      // N
    uint64_t* bfs;      // N
    uint64_t* levels;   // N+1 (first nlevels valid)
    uint64_t* nlevels;
    uint8_t* mask;      // N (is_masked)
    uint8_t* base;      // N (is_base_level)
};

static void
dump(impl_t& g, const tables& t)
{
    for (int i = 0; i < FSV_N; i++)
    {
        t.rcount[i] = g.m_receivers_count(i);
        t.dcount[i] = g.m_donors_count(i);
        t.dfs[i] = g.m_dfs_indices(i);
        t.bfs[i] = g.m_bfs_indices(i);
        t.mask[i] = g.is_masked(i) ? 1 : 0;
        t.base[i] = g.is_base_level(i) ? 1 : 0;
        for (int k = 0; k < FSV_R; k++)
        {
            t.rec[i * FSV_R + k] = g.m_receivers(i, k);
            t.rdist[i * FSV_R + k] = g.m_receivers_distance(i, k);
            t.rweight[i * FSV_R + k] = g.m_receivers_weight(i, k);
        }
        for (int k = 0; k < FSV_D + 1; k++)
            t.donors[i * (FSV_D + 1) + k] = g.m_donors(i, k);
    }
    *t.nlevels = g.m_bfs_levels.size();
    for (size_t i = 0; i < FSV_N + 1; i++)
        t.levels[i] = i < g.m_bfs_levels.size() ? g.m_bfs_levels(i) : (uint64_t) -1;
}

FSV_API int
fsv_snapshot(const uint64_t* rec, const uint64_t* rcount, const double* rdist, const double* rweight, const uint64_t* donors,
             const uint64_t* dcount, const uint64_t* dfs, const uint64_t* bfs, const uint64_t* levels, uint64_t nlevels,
             const uint8_t* mask, int use_mask, const uint64_t* bl, uint64_t nbl, const double* elev, int rounds, const uint8_t* mask2,
             const uint64_t* dfs2, const double* elev2,
             uint64_t* o_rec, uint64_t* o_rcount, double* o_rdist, double* o_rweight, uint64_t* o_donors, uint64_t* o_dcount,
             uint64_t* o_dfs, uint64_t* o_bfs, uint64_t* o_levels, uint64_t* o_nlevels, uint8_t* o_mask, uint8_t* o_base, double* o_elev)
{
    FSV_TRY
    {
        grid_t grid = make_grid();
        impl_t src(grid, FSV_SINGLE);
        impl_t snap(grid, FSV_SINGLE);
        std::vector<size_t> blv(bl, bl + nbl);
        src.set_base_levels(blv);
        if (use_mask)
        {
            xt::xarray<bool> m = xt::zeros<bool>({ (size_t) FSV_N });
            for (int i = 0; i < FSV_N; i++)
                m.flat(i) = mask[i] != 0;
            src.set_mask(m);
        }
        for (int i = 0; i < FSV_N; i++)
        {
            src.m_receivers_count(i) = rcount[i];
            src.m_donors_count(i) = dcount[i];
            src.m_dfs_indices(i) = dfs[i];
            src.m_bfs_indices(i) = bfs[i];
            for (int k = 0; k < FSV_R; k++)
            {
                src.m_receivers(i, k) = rec[i * FSV_R + k];
                src.m_receivers_distance(i, k) = rdist[i * FSV_R + k];
                src.m_receivers_weight(i, k) = rweight[i * FSV_R + k];
            }
            for (int k = 0; k < FSV_D + 1; k++)
                src.m_donors(i, k) = donors[i * (FSV_D + 1) + k];
        }
        {
            std::vector<size_t> lv(levels, levels + nlevels);
            src.m_bfs_levels = xt::adapt(lv, { nlevels });
        }
        xt::xarray<double> e = xt::zeros<double>({ (size_t) FSV_N }), es = xt::zeros<double>({ (size_t) FSV_N });
        for (int i = 0; i < FSV_N; i++)
            e.flat(i) = elev[i];
        snap_impl_t op(std::make_shared<fs::flow_snapshot>("s", true, true));
        op._save(src, snap);
        op._save(e, es);
        if (rounds == 2)
        {
            // a later update of the source graph (other mask, other bottom-up order, other elevation): the next save replaces the snapshot
            xt::xarray<bool> m2 = xt::zeros<bool>({ (size_t) FSV_N });
            for (int i = 0; i < FSV_N; i++)
            {
                m2.flat(i) = mask2[i] != 0;
                src.m_dfs_indices(i) = dfs2[i];
                e.flat(i) = elev2[i];
            }
            src.set_mask(m2);
            op._save(src, snap);
            op._save(e, es);
        }
        tables t{ o_rec, o_rcount, o_rdist, o_rweight, o_donors, o_dcount, o_dfs, o_bfs, o_levels, o_nlevels, o_mask, o_base };
        dump(snap, t);
        for (int i = 0; i < FSV_N; i++)
            o_elev[i] = es.flat(i);
        return 0;
    }
    FSV_CATCH
}
