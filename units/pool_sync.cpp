// Unit: the synchronisation skeleton of thread_pool<size_t> (instantiates the member functions so that their
// atomic operations and memory orders appear in the IR; consumed by tools/pool_hb.py, not translated to C)
#include <cstdint>
#include <cstddef>
#include <vector>
#include <cassert>
#include <mutex>
#include "fastscapelib/utils/thread_pool.hpp"
namespace fs = fastscapelib;
extern "C" __attribute__((noinline)) void fsv_pool_roundtrip(fs::thread_pool<size_t>* pool, std::vector<std::function<void()>>* jobs)
{
    pool->set_tasks(*jobs);
    pool->run_tasks();
    pool->wait();
}
extern "C" __attribute__((noinline)) void fsv_pool_start(fs::thread_pool<size_t>* pool) { pool->start(); }
extern "C" __attribute__((noinline)) bool fsv_pool_was_empty(fs::thread_pool<size_t>* pool) { return pool->was_empty(); }
extern "C" __attribute__((noinline)) void fsv_pool_run_tasks(fs::thread_pool<size_t>* pool) { pool->run_tasks(); }
extern "C" __attribute__((noinline)) void fsv_pool_pause(fs::thread_pool<size_t>* pool) { pool->pause(); }
extern "C" __attribute__((noinline)) void fsv_pool_resume(fs::thread_pool<size_t>* pool) { pool->resume(); }
extern "C" __attribute__((noinline)) fs::thread_pool<size_t>* fsv_pool_make(size_t n) { return new fs::thread_pool<size_t>(n); }
