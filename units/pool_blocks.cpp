// Unit: thread_pool<size_t>::blocks (pure integer partition arithmetic of run_blocks)
#include <cstdint>
#include <cstddef>
#include <vector>
#include <cassert>
#include <mutex>
#include "fastscapelib/utils/thread_pool.hpp"
namespace fs = fastscapelib;
extern "C" __attribute__((noinline)) void
fsv_blocks(uint64_t first, uint64_t last, uint64_t pool_size, uint64_t min_size, uint64_t* nblocks, uint64_t* start, uint64_t* end)
{
    fs::thread_pool<size_t>::blocks b(first, last, pool_size, min_size);
    *nblocks = b.num_blocks();
    // run_blocks creates job i for i < num_blocks(), i < pool size
    for (uint64_t i = 0; i < 16; i++)
    {
        start[i] = i < b.num_blocks() ? b.start(i) : 0;
        end[i] = i < b.num_blocks() ? b.end(i) : 0;
    }
}
