// Unit: diffusion_adi_eroder on a real raster grid (rook), scalar or array diffusivity
#include "fsv_unit.hpp"
#include "fastscapelib/grid/raster_grid.hpp"
#include "fastscapelib/eroders/diffusion_adi.hpp"
namespace fs = fastscapelib;
#ifndef FSV_ROWS
#define FSV_ROWS 3
#endif
#ifndef FSV_COLS
#define FSV_COLS 3
#endif
using grid_t = fs::raster_grid<fs::xt_selector, fs::raster_connect::rook>;

FSV_API int
fsv_adi(const double* elev, const double* k, int k_scalar, double dt, double dy, double dx, uint8_t status, int rounds, const double* elev2, double* erosion)
{
    FSV_TRY
    {
        typename grid_t::shape_type shape{ { FSV_ROWS, FSV_COLS } };
        grid_t grid(shape, { dy, dx }, fs::raster_boundary_status(static_cast<fs::node_status>(status)));
        xt::xarray<double> e = xt::zeros<double>({ (size_t) FSV_ROWS, (size_t) FSV_COLS });
        xt::xtensor<double, 2> kk = xt::zeros<double>({ (size_t) FSV_ROWS, (size_t) FSV_COLS });
        for (int i = 0; i < FSV_ROWS * FSV_COLS; i++)
        {
            e.flat(i) = elev[i];
            kk.flat(i) = k[i];
        }
        fs::diffusion_adi_eroder<grid_t> eroder(grid, 1.0);
        if (k_scalar)
            eroder.set_k_coef(k[0]);
        else
            eroder.set_k_coef(kk);
        const xt::xarray<double>* res = &eroder.erode(e, dt);
        if (rounds == 2)
        {
            for (int i = 0; i < FSV_ROWS * FSV_COLS; i++)
                e.flat(i) = elev2[i];
            res = &eroder.erode(e, dt);
        }
        for (int i = 0; i < FSV_ROWS * FSV_COLS; i++)
            erosion[i] = res->flat(i);
        return 0;
    }
    FSV_CATCH
}
