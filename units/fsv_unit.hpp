// Common definitions for unit translation units (harness-side code, NOT library code).
// Units instantiate the real fastscapelib templates from /repo/include and expose extern "C" entry points.
#ifndef FSV_UNIT_HPP
#define FSV_UNIT_HPP
#include <cstdint>
#include <cstddef>
#include <array>
#include <vector>
#include <memory>
#include <stdexcept>

#include "fastscapelib/grid/base.hpp"
#include "fastscapelib/grid/structured_grid.hpp"
#include "fastscapelib/utils/xtensor_containers.hpp"

#define FSV_API extern "C" __attribute__((noinline))

// entry points that may throw return 1 from the catch clause in the native real build; under
// -fignore-exceptions (IR build) the catch disappears and a throw ends in the __cxa_throw model
#define FSV_TRY try
#define FSV_CATCH catch (...) { return 1; }

namespace fsv
{
    namespace fs = fastscapelib;

    template <unsigned NMAX, unsigned D, class C>
    class table_grid;
}

namespace fastscapelib
{
    template <unsigned NMAX, unsigned D, class C>
    struct grid_inner_types<fsv::table_grid<NMAX, D, C>>
    {
        static constexpr bool is_structured = false;
        static constexpr bool is_uniform = false;
        using grid_data_type = double;
        using container_selector = xt_selector;
        static constexpr std::size_t container_ndims = 1;
        static constexpr uint8_t n_neighbors_max = D;
        using neighbors_cache_type = C;
    };
}

namespace fsv
{
    // A grid whose derived part (adjacency, distances, areas, statuses) is read from plain tables, while
    // everything the flow code talks to -- grid<G>::neighbors(), neighbors_indices(), nodes_indices(),
    // the neighbours cache logic, the node iterators -- is the library's own CRTP base class.
    template <unsigned NMAX, unsigned D, class C = fs::neighbors_cache<D>>
    class table_grid : public fs::grid<table_grid<NMAX, D, C>>
    {
    public:
        using self_type = table_grid<NMAX, D, C>;
        using base_type = fs::grid<self_type>;
        using size_type = typename base_type::size_type;
        using shape_type = typename base_type::shape_type;
        using grid_data_type = double;
        using container_type = typename base_type::container_type;
        using neighbors_type = typename base_type::neighbors_type;
        using nodes_status_type = typename base_type::nodes_status_type;
        using neighbors_indices_impl_type = typename base_type::neighbors_indices_impl_type;
        using neighbors_distances_impl_type = typename base_type::neighbors_distances_impl_type;

        table_grid(size_type n,
                   const uint64_t* cnt,
                   const uint64_t* nb,
                   const double* dist,
                   const double* area,
                   const uint8_t* status)
            : base_type(n)
            , m_size(n)
        {
            m_shape = { n };
            m_nodes_status = nodes_status_type(m_shape, fs::node_status::core);
            for (size_type i = 0; i < n; ++i)
            {
                m_cnt[i] = cnt[i];
                m_area[i] = area ? area[i] : 1.0;
                m_nodes_status(i) = status ? static_cast<fs::node_status>(status[i]) : fs::node_status::core;
                for (unsigned k = 0; k < D; ++k)
                {
                    m_nb[i][k] = nb[i * D + k];
                    m_dist[i][k] = dist[i * D + k];
                }
            }
        }

        shape_type m_shape;
        size_type m_size;
        nodes_status_type m_nodes_status;
        size_type m_cnt[NMAX];
        size_type m_nb[NMAX][D];
        double m_area[NMAX];
        std::array<double, D> m_dist[NMAX];

        inline container_type nodes_areas_impl() const
        {
            container_type a(m_shape);
            for (size_type i = 0; i < m_size; ++i)
                a(i) = m_area[i];
            return a;
        }
        inline grid_data_type nodes_areas_impl(const size_type& idx) const noexcept
        {
            return m_area[idx];
        }
        inline size_type neighbors_count_impl(const size_type& idx) const
        {
            return m_cnt[idx];
        }
        void neighbors_indices_impl(neighbors_indices_impl_type& neighbors, const size_type& idx) const
        {
            for (size_type k = 0; k < m_cnt[idx]; ++k)
                neighbors[k] = m_nb[idx][k];
        }
        const neighbors_distances_impl_type& neighbors_distances_impl(const size_type& idx) const
        {
            return m_dist[idx];
        }
    };
}
#endif
