// Unit: flow_graph_impl algorithms run from an arbitrary pre-state written directly into the (private) tables.
//   compute_donors / compute_dfs_indices_bottomup / compute_dfs_indices_topdown / compute_bfs_indices_bottomup,
//   compute_basins / pits, accumulate (array and scalar source; returning and in-place overloads)
// FSV_N nodes, FSV_D max neighbours (donor table width FSV_D+1), FSV_SINGLE 1/0 (receiver table width 1 / FSV_D)
#include "fsv_unit.hpp"
#include "fastscapelib/flow/flow_graph_impl.hpp"
#include "fastscapelib/flow/flow_operator.hpp"

namespace fs = fastscapelib;

#ifndef FSV_N
#define FSV_N 4
#endif
#ifndef FSV_D
#define FSV_D 2
#endif
#ifndef FSV_SINGLE
#define FSV_SINGLE 1
#endif
#define FSV_R (FSV_SINGLE ? 1 : FSV_D)

using grid_t = fsv::table_grid<FSV_N, FSV_D>;
using impl_t = fs::detail::flow_graph_impl<grid_t, fs::xt_selector, fs::flow_graph_fixed_array_tag>;

static grid_t
make_grid(const double* area)
{
    // adjacency is irrelevant for these algorithms (they only read the graph tables); a ring keeps it well-formed
    uint64_t cnt[FSV_N], nb[FSV_N * FSV_D];
    double dist[FSV_N * FSV_D];
    for (int i = 0; i < FSV_N; i++)
    {
        cnt[i] = 2 <= FSV_D ? 2 : 1;
        for (int k = 0; k < FSV_D; k++)
        {
            nb[i * FSV_D + k] = (i + (k == 0 ? FSV_N - 1 : 1)) % FSV_N;
            dist[i * FSV_D + k] = 1.0;
        }
    }
    return grid_t(FSV_N, cnt, nb, dist, area, nullptr);
}

static void
load_state(impl_t& impl, const uint64_t* rec, const uint64_t* rcount, const double* weight)
{
    for (int i = 0; i < FSV_N; i++)
    {
        impl.m_receivers_count(i) = FSV_SINGLE ? 1 : rcount[i];
        for (int k = 0; k < FSV_R; k++)
        {
            impl.m_receivers(i, k) = rec[i * FSV_R + k];
            impl.m_receivers_weight(i, k) = weight ? weight[i * FSV_R + k] : 1.0;
            impl.m_receivers_distance(i, k) = 1.0;
        }
    }
}

// donors bookkeeping exactly as multi_flow_router::apply does it (flow_router.hpp): ascending node order
static void
multi_donors(impl_t& impl)
{
    impl.m_donors_count.fill(0);
    for (size_t i = 0; i < FSV_N; i++)
        for (size_t k = 0; k < impl.m_receivers_count(i); k++)
        {
            size_t r = impl.m_receivers(i, k);
            if (r != i)
                impl.m_donors(r, impl.m_donors_count(r)++) = i;
        }
}

FSV_API void
fsv_orders(const uint64_t* rec, const uint64_t* rcount, uint64_t* donors, uint64_t* dcount, uint64_t* dfs, uint64_t* bfs,
           uint64_t* levels, uint64_t* nlevels)
{
    grid_t grid = make_grid(nullptr);
    impl_t impl(grid, FSV_SINGLE);
    load_state(impl, rec, rcount, nullptr);
#if FSV_SINGLE
    impl.compute_donors();
#else
    multi_donors(impl);
#endif
#if !defined(FSV_PART) || FSV_PART == 1
#if FSV_SINGLE
    impl.compute_dfs_indices_bottomup();
#else
    impl.compute_dfs_indices_topdown();
#endif
#endif
#if !defined(FSV_PART) || FSV_PART == 2
    impl.compute_bfs_indices_bottomup();
#endif
    for (int i = 0; i < FSV_N; i++)
    {
        dcount[i] = impl.m_donors_count(i);
        dfs[i] = impl.m_dfs_indices(i);
        bfs[i] = impl.m_bfs_indices(i);
        for (int k = 0; k < FSV_D + 1; k++)
            donors[i * (FSV_D + 1) + k] = impl.m_donors(i, k);
    }
    *nlevels = impl.m_bfs_levels.size();
    for (size_t i = 0; i < impl.m_bfs_levels.size() && i < FSV_N + 1; i++)
        levels[i] = impl.m_bfs_levels(i);
}

// basins: pre-state = receivers (single) + bottom-up order, mask, base levels; second call on the same object
// after another state when rec2 != nullptr
FSV_API void
fsv_basins(const uint64_t* rec, const uint64_t* dfs, const uint8_t* mask, int use_mask, const uint64_t* bl, uint64_t nbl,
           const uint64_t* rec2, const uint64_t* dfs2, const uint8_t* mask2,
           uint64_t* basins, uint64_t* outlets, uint64_t* noutlets, uint64_t* pits, uint64_t* npits)
{
    grid_t grid = make_grid(nullptr);
    impl_t impl(grid, true);
    std::vector<size_t> blv(bl, bl + nbl);
    impl.set_base_levels(blv);
    for (int round = 0; round < (rec2 ? 2 : 1); round++)
    {
        const uint64_t* r = round ? rec2 : rec;
        const uint64_t* d = round ? dfs2 : dfs;
        const uint8_t* mk = round ? mask2 : mask;
        load_state(impl, r, nullptr, nullptr);
        for (int i = 0; i < FSV_N; i++)
            impl.m_dfs_indices(i) = d[i];
        if (use_mask)
        {
            xt::xarray<bool> m = xt::zeros<bool>({ (size_t) FSV_N });
            for (int i = 0; i < FSV_N; i++)
                m.flat(i) = mk[i] != 0;
            impl.set_mask(m);
        }
        impl.compute_basins();
        const auto& p = impl.pits();
        *noutlets = impl.outlets().size();
        *npits = p.size();
        for (int i = 0; i < FSV_N; i++)
        {
            basins[i] = impl.basins()(i);
            outlets[i] = (size_t) i < impl.outlets().size() ? impl.outlets()[i] : (size_t) -1;
            pits[i] = (size_t) i < p.size() ? p[i] : (size_t) -1;
        }
    }
}

// accumulate: which = 0 in-place array source, 1 returning array source, 2 in-place scalar, 3 returning scalar
FSV_API void
fsv_accumulate(const uint64_t* rec, const uint64_t* rcount, const double* weight, const uint64_t* dfs, const double* area,
               const double* src, int which, double* acc_out)
{
    grid_t grid = make_grid(area);
    impl_t impl(grid, FSV_SINGLE);
    load_state(impl, rec, rcount, weight);
    for (int i = 0; i < FSV_N; i++)
        impl.m_dfs_indices(i) = dfs[i];
    using arr_t = impl_t::data_array_type;
    arr_t s = xt::zeros<double>({ (size_t) FSV_N });
    for (int i = 0; i < FSV_N; i++)
        s.flat(i) = src[i];
    arr_t acc = xt::ones<double>({ (size_t) FSV_N }) * 7.0;  // stale content must not leak
    switch (which)
    {
        case 0:
            impl.accumulate(acc, s);
            break;
        case 1:
            acc = impl.accumulate(s);
            break;
        case 2:
            impl.accumulate(acc, src[0]);
            break;
        default:
            acc = impl.accumulate(src[0]);
            break;
    }
    for (int i = 0; i < FSV_N; i++)
        acc_out[i] = acc.flat(i);
}
