// Unit: node iteration (optionally filtered by status) on real grids; default base levels of a flow graph
#include "fsv_unit.hpp"
#include "fastscapelib/grid/profile_grid.hpp"
#include "fastscapelib/flow/flow_graph_impl.hpp"
namespace fs = fastscapelib;
#ifndef FSV_N
#define FSV_N 4
#endif
using grid_t = fs::profile_grid<>;
using impl_t = fs::detail::flow_graph_impl<grid_t, fs::xt_selector, fs::flow_graph_fixed_array_tag>;

// forward (dir = 0) or reverse (dir = 1) iteration over nodes_indices(filter) (filter = 255: no filter);
// writes the visited indices, returns their number through *n
FSV_API int
fsv_iterate(uint8_t left, uint8_t right, uint8_t filter, int dir, uint64_t* out, uint64_t* n)
{
    FSV_TRY
    {
        grid_t grid(FSV_N, 1.0, fs::profile_boundary_status(static_cast<fs::node_status>(left), static_cast<fs::node_status>(right)));
        uint64_t k = 0;
        auto visit = [&](size_t i) { if (k < FSV_N + 2) out[k] = i; k++; };
        if (filter == 255)
        {
            auto r = grid.nodes_indices();
            if (dir == 0)
                for (auto it = r.begin(); it != r.end(); ++it)
                    visit(*it);
            else
                for (auto it = r.rbegin(); it != r.rend(); ++it)
                    visit(*it);
        }
        else
        {
            auto r = grid.nodes_indices(static_cast<fs::node_status>(filter));
            if (dir == 0)
                for (auto it = r.begin(); it != r.end(); ++it)
                    visit(*it);
            else
                for (auto it = r.rbegin(); it != r.rend(); ++it)
                    visit(*it);
        }
        *n = k;
        return 0;
    }
    FSV_CATCH
}

// the line of the flow_graph constructor that seeds the default base levels
FSV_API int
fsv_default_base_levels(uint8_t left, uint8_t right, uint8_t* is_base)
{
    FSV_TRY
    {
        grid_t grid(FSV_N, 1.0, fs::profile_boundary_status(static_cast<fs::node_status>(left), static_cast<fs::node_status>(right)));
        impl_t impl(grid, true);
        impl.set_base_levels(grid.nodes_indices(fs::node_status::fixed_value));
        for (size_t i = 0; i < FSV_N; i++)
            is_base[i] = impl.is_base_level(i) ? 1 : 0;
        return 0;
    }
    FSV_CATCH
}
