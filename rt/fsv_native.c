/* Native driver for harnesses (translation validation + counter-example replay).
 *   prog random <count> <seed>   : run fsv_harness() on <count> PRNG input vectors; per vector print
 *                                  "<k> <status> <obs-hash>"; status = ok | skip | FAIL:<msg>
 *   prog replay <file>           : inputs from <file> (lines: name index hex64); exit 1 if an assertion fails
 */
#include <stdio.h>
#include <stdlib.h>
#include <string.h>
#include <stdint.h>
#include <stdarg.h>
#include <setjmp.h>
#include <float.h>
#include <math.h>

void fsv_harness(void);
#ifndef FSV_TRANSLATED
int fsv_expect_throw = 0;
#else
extern int fsv_expect_throw;
#endif

static jmp_buf jb;
static uint64_t rng;
static uint64_t obs_hash;
static int mode_replay = 0;
static char failmsg[256];
static int failed;
static int verbose;

static uint64_t rnd(void) { rng ^= rng << 13; rng ^= rng >> 7; rng ^= rng << 17; return rng; }

#define MAXIN 4096
static struct { char name[48]; int idx; uint64_t bits; } tab[MAXIN];
static int ntab;

static int lookup(const char* name, int idx, uint64_t* out) {
  for (int i = 0; i < ntab; i++) if (tab[i].idx == idx && !strcmp(tab[i].name, name)) { *out = tab[i].bits; return 1; }
  return 0;
}

void fsvn_assume(int c) { if (!c) longjmp(jb, 1); }
void fsvn_skip(void) { longjmp(jb, 1); }
void fsvn_assert(int c, const char* msg) {
  if (!c && !failed) { failed = 1; snprintf(failmsg, sizeof failmsg, "%s", msg); }
}
void fsvn_thrown(void) {
  obs_hash = obs_hash * 1099511628211ULL ^ 0x7468726f77ULL;
  fsvn_assert(fsv_expect_throw, "unexpected C++ exception thrown");
  longjmp(jb, 2);
}
void fsvn_note(const char* fmt, ...) {
  if (!verbose) return;
  va_list ap; va_start(ap, fmt); vprintf(fmt, ap); va_end(ap);
}
static void mix(uint64_t x) { obs_hash = (obs_hash ^ x) * 1099511628211ULL; obs_hash ^= obs_hash >> 29; }
void fsvn_obs_u64(uint64_t x) { mix(x); if (verbose) printf("  obs u64 %llu\n", (unsigned long long)x); }
void fsvn_obs_f64(double x) { uint64_t b; memcpy(&b, &x, 8); if (x != x) b = 0x7ff8000000000000ULL; mix(b); if (verbose) printf("  obs f64 %a (%.17g)\n", x, x); }

static double rnd_double(void) {
  uint64_t r = rnd();
  unsigned c = r % 100; r >>= 8;
  if (c < 45) return (double)(r % 4);
  if (c < 60) return (double)(int)(r % 7) - 3.0;
  if (c < 75) return (double)(r % 1000) / 8.0;
  if (c < 85) return ((double)(r % 2000001) - 1000000.0) * 1e-3;
  if (c < 88) return 0.0;
  if (c < 90) return -0.0;
  if (c < 92) return DBL_MIN * (double)(r % 3);
  if (c < 94) return 4.9406564584124654e-324 * (double)(r % 4);
  if (c < 96) return 1e300 * (double)(1 + r % 3);
  if (c < 98) return -1e300;
  { double d; uint64_t b = rnd(); memcpy(&d, &b, 8); if (d != d || d - d != 0) d = 1.5; return d; }
}

void fsvn_in_f64(const char* name, double* a, int n) {
  for (int i = 0; i < n; i++) {
    if (mode_replay) { uint64_t b = 0; lookup(name, i, &b); memcpy(&a[i], &b, 8); }
    else a[i] = rnd_double();
    if (verbose) printf("  in %s[%d] = %a (%.17g)\n", name, i, a[i], a[i]);
  }
}
void fsvn_in_u64(const char* name, uint64_t* a, int n, uint64_t lo, uint64_t hi) {
  for (int i = 0; i < n; i++) {
    if (mode_replay) { uint64_t b = 0; lookup(name, i, &b); a[i] = b; if (b < lo || b > hi) longjmp(jb, 1); }
    else a[i] = (hi - lo == UINT64_MAX) ? rnd() : lo + rnd() % (hi - lo + 1);
    if (verbose) printf("  in %s[%d] = %llu\n", name, i, (unsigned long long)a[i]);
  }
}
void fsvn_in_u8(const char* name, uint8_t* a, int n, unsigned lo, unsigned hi) {
  for (int i = 0; i < n; i++) {
    if (mode_replay) { uint64_t b = 0; lookup(name, i, &b); a[i] = (uint8_t)b; if (a[i] < lo || a[i] > hi) longjmp(jb, 1); }
    else a[i] = (uint8_t)(lo + rnd() % (hi - lo + 1));
    if (verbose) printf("  in %s[%d] = %u\n", name, i, a[i]);
  }
}

int main(int argc, char** argv) {
  if (argc >= 3 && !strcmp(argv[1], "replay")) {
    mode_replay = 1; verbose = 1;
    FILE* f = fopen(argv[2], "r");
    if (!f) { perror(argv[2]); return 2; }
    char nm[48]; int idx; unsigned long long bits;
    while (ntab < MAXIN && fscanf(f, "%47s %d %llx", nm, &idx, &bits) == 3) {
      strcpy(tab[ntab].name, nm); tab[ntab].idx = idx; tab[ntab].bits = bits; ntab++;
    }
    fclose(f);
    failed = 0; fsv_expect_throw = 0;
    int j = setjmp(jb);
    if (j == 0) fsv_harness();
    if (j == 1) { printf("REPLAY skip (assumption not satisfied)\n"); return 3; }
    if (failed) { printf("REPLAY FAIL: %s\n", failmsg); return 1; }
    printf("REPLAY ok\n");
    return 0;
  }
  if (argc >= 4 && !strcmp(argv[1], "random")) {
    long cnt = atol(argv[2]);
    uint64_t seed = strtoull(argv[3], 0, 10);
    for (long k = 0; k < cnt; k++) {
      rng = (seed + 1) * 0x9E3779B97F4A7C15ULL + (uint64_t)k * 0xD1B54A32D192ED03ULL; rnd(); rnd();
      obs_hash = 1469598103934665603ULL; failed = 0; fsv_expect_throw = 0;
      int j = setjmp(jb);
      if (j == 0) fsv_harness();
      if (j == 1) printf("%ld skip\n", k);
      else if (failed) printf("%ld FAIL:%s %016llx\n", k, failmsg, (unsigned long long)obs_hash);
      else printf("%ld ok %016llx\n", k, (unsigned long long)obs_hash);
    }
    return 0;
  }
  fprintf(stderr, "usage: %s random <count> <seed> | replay <file>\n", argv[0]);
  return 2;
}
