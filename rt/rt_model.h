/* C models of the libstdc++/libc externals the translated code calls (prototype).
   Each model is compiled only if the translated unit declares the symbol. */
#include <assert.h>
int fsv_expect_throw = 0;
#ifndef __CPROVER__
void fsvn_thrown(void);
#endif
static void fsv_throw(void){
#ifdef __CPROVER__
#ifdef WITNESS
  /* vacuity twin of a harness that expects the error: reaching the throw is its end of path */
  __CPROVER_assert(!fsv_expect_throw, "FSV-WITNESS: expected throw reachable");
#endif
  __CPROVER_assert(fsv_expect_throw, "FSV: unexpected C++ exception thrown");
  __CPROVER_assume(0);
#else
  fsvn_thrown();
#endif
}
#ifdef __CPROVER__
#define FSV_NONNULL(p) __CPROVER_assume((p)!=0)
#else
#define FSV_NONNULL(p) ((void)0)
#endif
#define THROWING(sym) 
#if defined(FSV_EXTVAR___dso_handle) && defined(__CPROVER__)   /* natively crtbegin provides it */
FSV_EXTVAR___dso_handle()
#endif
#ifdef FSV_EXTVAR___libc_single_threaded
FSV_EXTVAR___libc_single_threaded(= 1)
#endif
#ifdef FSV_EXTVAR__ZTISt16invalid_argument
FSV_EXTVAR__ZTISt16invalid_argument()
#endif
#ifdef FSV_EXTVAR__ZTVN10__cxxabiv120__si_class_type_infoE
FSV_EXTVAR__ZTVN10__cxxabiv120__si_class_type_infoE()
#endif
#ifdef FSV_EXTVAR__ZTISt13runtime_error
FSV_EXTVAR__ZTISt13runtime_error()
#endif
#ifdef FSV_EXTVAR__ZTISt12out_of_range
FSV_EXTVAR__ZTISt12out_of_range()
#endif
#ifdef FSV_EXTVAR__ZTVN10__cxxabiv117__class_type_infoE
FSV_EXTVAR__ZTVN10__cxxabiv117__class_type_infoE()
#endif
#ifdef FSV_EXTVAR__ZTINSt6thread6_StateE
FSV_EXTVAR__ZTINSt6thread6_StateE()
#endif
#ifdef FSV_DEF___cxa_atexit
FSV_DEF___cxa_atexit({ return 0; })
#endif
#ifdef FSV_DEF___cxa_allocate_exception
FSV_DEF___cxa_allocate_exception({ uint8_t* p = malloc(a0); FSV_NONNULL(p); return p; })
#endif
#ifdef FSV_DEF___cxa_throw
FSV_DEF___cxa_throw({ fsv_throw(); })
#endif
#ifdef FSV_DEF___cxa_pure_virtual
FSV_DEF___cxa_pure_virtual({ fsv_throw(); })
#endif
#ifdef FSV_DEF__ZSt9terminatev
FSV_DEF__ZSt9terminatev({ fsv_throw(); })
#endif
#ifdef FSV_DEF__ZSt28__throw_bad_array_new_lengthv
FSV_DEF__ZSt28__throw_bad_array_new_lengthv({ fsv_throw(); })
#endif
#ifdef FSV_DEF__ZSt17__throw_bad_allocv
FSV_DEF__ZSt17__throw_bad_allocv({ fsv_throw(); })
#endif
#ifdef FSV_DEF__ZSt20__throw_length_errorPKc
FSV_DEF__ZSt20__throw_length_errorPKc({ fsv_throw(); })
#endif
#ifdef FSV_DEF__ZSt24__throw_out_of_range_fmtPKcz
FSV_DEF__ZSt24__throw_out_of_range_fmtPKcz({ fsv_throw(); })
#endif
#ifdef FSV_DEF__ZSt20__throw_system_errori
FSV_DEF__ZSt20__throw_system_errori({ fsv_throw(); })
#endif
#ifdef FSV_DEF__ZSt25__throw_bad_function_callv
FSV_DEF__ZSt25__throw_bad_function_callv({ fsv_throw(); })
#endif
#ifdef FSV_DEF__Znwm
FSV_DEF__Znwm({ uint8_t* p = malloc(a0); FSV_NONNULL(p); return p; })
#endif
#ifdef FSV_DEF__ZdlPv
FSV_DEF__ZdlPv({ free(a0); })
#endif
#ifdef FSV_DEF__ZNSt16invalid_argumentC1EPKc
FSV_DEF__ZNSt16invalid_argumentC1EPKc({})
#endif
#ifdef FSV_DEF__ZNSt16invalid_argumentD1Ev
FSV_DEF__ZNSt16invalid_argumentD1Ev({})
#endif
#ifdef FSV_DEF__ZNSt13runtime_errorD2Ev
FSV_DEF__ZNSt13runtime_errorD2Ev({})
#endif
#ifdef FSV_DEF__ZNSt13runtime_errorD1Ev
FSV_DEF__ZNSt13runtime_errorD1Ev({})
#endif
#ifdef FSV_DEF__ZNSt13runtime_errorC2EPKc
FSV_DEF__ZNSt13runtime_errorC2EPKc({})
#endif
#ifdef FSV_DEF__ZNKSt13runtime_error4whatEv
FSV_DEF__ZNKSt13runtime_error4whatEv({ return (uint8_t*)""; })
#endif
#ifdef FSV_DEF__ZNSt12out_of_rangeC1EPKc
FSV_DEF__ZNSt12out_of_rangeC1EPKc({})
#endif
#ifdef FSV_DEF__ZNSt12out_of_rangeD1Ev
FSV_DEF__ZNSt12out_of_rangeD1Ev({})
#endif
#ifdef FSV_DEF__ZNSt13runtime_errorC1ERKNSt7__cxx1112basic_stringIcSt11char_traitsIcESaIcEEE
FSV_DEF__ZNSt13runtime_errorC1ERKNSt7__cxx1112basic_stringIcSt11char_traitsIcESaIcEEE({})
#endif
/* string building only happens on error paths that end in a throw: cut there */
#ifdef FSV_DEF__ZNSt7__cxx1112basic_stringIcSt11char_traitsIcESaIcEE9_M_appendEPKcm
FSV_DEF__ZNSt7__cxx1112basic_stringIcSt11char_traitsIcESaIcEE9_M_appendEPKcm({ fsv_throw(); return a0; })
#endif
#ifdef FSV_DEF__ZNSt7__cxx1112basic_stringIcSt11char_traitsIcESaIcEE10_M_replaceEmmPKcm
FSV_DEF__ZNSt7__cxx1112basic_stringIcSt11char_traitsIcESaIcEE10_M_replaceEmmPKcm({ fsv_throw(); return a0; })
#endif
#ifdef FSV_DEF__ZNSt7__cxx1112basic_stringIcSt11char_traitsIcESaIcEE12_M_constructEmc
FSV_DEF__ZNSt7__cxx1112basic_stringIcSt11char_traitsIcESaIcEE12_M_constructEmc({ fsv_throw(); })
#endif
#ifdef FSV_DEF__ZNSt7__cxx1112basic_stringIcSt11char_traitsIcESaIcEE9_M_createERmm
FSV_DEF__ZNSt7__cxx1112basic_stringIcSt11char_traitsIcESaIcEE9_M_createERmm({ fsv_throw(); return 0; })
#endif
#ifdef FSV_DEF_fsvx_sqrt
FSV_DEF_fsvx_sqrt({ return sqrt(a0); })
#endif
#ifdef FSV_DEF_fsvx_strlen
FSV_DEF_fsvx_strlen({ return strlen((char*)a0); })
#endif
#ifdef FSV_DEF_fsvx_strcmp
FSV_DEF_fsvx_strcmp({ return (uint32_t)strcmp((char*)a0,(char*)a1); })
#endif
#ifdef FSV_DEF_fsvx_bcmp
FSV_DEF_fsvx_bcmp({ return (uint32_t)memcmp(a0,a1,a2); })
#endif
#ifdef FSV_DEF__ZNSt18condition_variableC1Ev
FSV_DEF__ZNSt18condition_variableC1Ev({})
#endif
#ifdef FSV_DEF__ZNSt18condition_variableD1Ev
FSV_DEF__ZNSt18condition_variableD1Ev({})
#endif
#ifdef FSV_DEF__ZNSt18condition_variable4waitERSt11unique_lockISt5mutexE
FSV_DEF__ZNSt18condition_variable4waitERSt11unique_lockISt5mutexE({ assert(0); })
#endif
#ifdef FSV_DEF__ZNSt18condition_variable10notify_allEv
FSV_DEF__ZNSt18condition_variable10notify_allEv({})
#endif
#ifdef FSV_DEF_fsvx_pthread_mutex_lock
FSV_DEF_fsvx_pthread_mutex_lock({ return 0; })
#endif
#ifdef FSV_DEF_fsvx_pthread_mutex_unlock
FSV_DEF_fsvx_pthread_mutex_unlock({ return 0; })
#endif
#ifdef FSV_DEF__ZNSt6thread4joinEv
FSV_DEF__ZNSt6thread4joinEv({})
#endif
#ifdef FSV_DEF__ZNSt6thread15_M_start_threadESt10unique_ptrINS_6_StateESt14default_deleteIS1_EEPFvvE
FSV_DEF__ZNSt6thread15_M_start_threadESt10unique_ptrINS_6_StateESt14default_deleteIS1_EEPFvvE({ assert(0); })
#endif
#ifdef FSV_DEF__ZNSt6thread6_StateD2Ev
FSV_DEF__ZNSt6thread6_StateD2Ev({})
#endif
#ifdef FSV_DEF__ZSt29_Rb_tree_insert_and_rebalancebPSt18_Rb_tree_node_baseS0_RS_
/* --- red-black tree: unbalanced BST with libstdc++'s header conventions (order/iteration preserved) */
typedef struct S_struct_2estd_3a_3a_Rb_tree_node_base rbn;
static rbn* fsv_rb_inc(rbn*x){
  if (x->f3) { x = x->f3; while (x->f2) x = x->f2; }
  else { rbn*y = x->f1; while (x == y->f3) { x = y; y = y->f1; } if (x->f3 != y) x = y; }
  return x; }
static rbn* fsv_rb_dec(rbn*x){
  if (x->f0 == 0 && x->f1->f1 == x) x = x->f3;
  else if (x->f2) { rbn*y = x->f2; while (y->f3) y = y->f3; x = y; }
  else { rbn*y = x->f1; while (x == y->f2) { x = y; y = y->f1; } x = y; }
  return x; }
FSV_DEF__ZSt29_Rb_tree_insert_and_rebalancebPSt18_Rb_tree_node_baseS0_RS_({
  rbn*x=a1; rbn*p=a2; rbn*h=a3;
  x->f1 = p; x->f2 = 0; x->f3 = 0; x->f0 = 1;
  if (a0) { p->f2 = x; if (p == h) { h->f1 = x; h->f3 = x; } else if (p == h->f2) h->f2 = x; }
  else { p->f3 = x; if (p == h->f3) h->f3 = x; }
})
#ifdef FSV_DEF__ZSt18_Rb_tree_incrementPSt18_Rb_tree_node_base
FSV_DEF__ZSt18_Rb_tree_incrementPSt18_Rb_tree_node_base({ return fsv_rb_inc(a0); })
#endif
#ifdef FSV_DEF__ZSt18_Rb_tree_incrementPKSt18_Rb_tree_node_base
FSV_DEF__ZSt18_Rb_tree_incrementPKSt18_Rb_tree_node_base({ return fsv_rb_inc(a0); })
#endif
#ifdef FSV_DEF__ZSt18_Rb_tree_decrementPSt18_Rb_tree_node_base
FSV_DEF__ZSt18_Rb_tree_decrementPSt18_Rb_tree_node_base({ return fsv_rb_dec(a0); })
#endif
#endif
#ifdef FSV_DEF__ZNKSt8__detail20_Prime_rehash_policy14_M_need_rehashEmmm
/* --- unordered containers rehash policy (mirrors libstdc++ hashtable_c++0x.cc for small sizes) */
static const uint64_t fsv_primes[] = {2,3,5,7,11,13,17,19,23,29,31,37,41,43,47,53,59,61,67,71,73,79,83,89,97,103,109,113,127,137,139,149,157,167,179,193,199,211,227,241,257,277,293,313,337,359,383,409,439,467,503,541};
static uint64_t fsv_next_bkt(struct S_struct_2estd_3a_3a__detail_3a_3a_Prime_rehash_policy*pol, uint64_t n){
  static const unsigned char fast[] = {2,2,2,3,5,5,7,7,11,11,11,11,13,13};
  if (n < sizeof(fast)) { if (n==0) return 1; pol->f1 = (uint64_t)floor(fast[n]*(double)pol->f0); return fast[n]; }
  unsigned i = 6; while (i < sizeof(fsv_primes)/sizeof(fsv_primes[0]) - 1 && fsv_primes[i] < n) i++;
  pol->f1 = (uint64_t)floor(fsv_primes[i]*(double)pol->f0); return fsv_primes[i]; }
FSV_DEF__ZNKSt8__detail20_Prime_rehash_policy14_M_need_rehashEmmm({
  struct S_struct_2estd_3a_3a__detail_3a_3a_Prime_rehash_policy*pol = a0; uint64_t n_bkt=a1, n_elt=a2, n_ins=a3;
  __typeof__(_ZNKSt8__detail20_Prime_rehash_policy14_M_need_rehashEmmm(a0,a1,a2,a3)) r; r.f0 = 0; r.f1 = 0;
  if (n_elt + n_ins > pol->f1) {
    uint64_t a = n_elt + n_ins; uint64_t b = pol->f1 ? 0 : 11; double min_bkts = (double)(a > b ? a : b) / (double)pol->f0;
    if (min_bkts >= (double)n_bkt) { uint64_t c = (uint64_t)floor(min_bkts) + 1; uint64_t d = n_bkt * 2; r.f0 = 1; r.f1 = fsv_next_bkt(pol, c > d ? c : d); return r; }
    pol->f1 = (uint64_t)floor(n_bkt*(double)pol->f0);
  }
  return r; })
#endif

#ifdef FSV_DEF_fsvx_pow
/* pow: cbmc has no model.  Exact for exponent 0 and 1 (C standard).  Otherwise a nondeterministic value constrained by
   the contract (x >= 0 and finite y: result >= 0, not NaN; pow(+0, y>0) = +0), consistent within one run:
   - default: memo table keyed by the argument values (same arguments -> same result, monotone in x for y > 0);
   - FSV_POW_SEQ: "uninterpreted function by call sequence": the k-th call returns the k-th element of a symbolic array
     and records its arguments; the harness oracle consumes the same array by index (FSV_POW_NTH) and ASSERTS that its
     arguments equal the recorded ones, so no floating-point comparison sits on the data path.
   Native builds call the real pow. */
#ifdef __CPROVER__
#ifndef FSV_POW_MAX
#define FSV_POW_MAX 12
#endif
#include "fsv_harness.h"
#ifdef FSV_POW_SEQ
fsv_f64 fsv_pow_val[FSV_POW_MAX], fsv_pow_ax[FSV_POW_MAX], fsv_pow_ay[FSV_POW_MAX];
int fsv_pow_calls = 0;
FSV_DEF_fsvx_pow({
  if (a1 == 1.0) return a0;
  if (a1 == 0.0) return 1.0;
  __CPROVER_assert(fsv_pow_calls < FSV_POW_MAX, "FSV: pow stub table large enough");
  int k = fsv_pow_calls < FSV_POW_MAX ? fsv_pow_calls : FSV_POW_MAX - 1;
  fsv_pow_calls++;
  fsv_pow_ax[k] = a0; fsv_pow_ay[k] = a1;
  fsv_f64 r = fsv_pow_val[k];
  if (a0 >= 0.0 && FSV_ISFINITE(a1)) __CPROVER_assume(r == r && r >= 0.0);
  return r; })
#else
static fsv_f64 fsv_pow_x[FSV_POW_MAX], fsv_pow_y[FSV_POW_MAX], fsv_pow_r[FSV_POW_MAX];
static int fsv_pow_n = 0;
FSV_DEF_fsvx_pow({
  if (a1 == 1.0) return a0;   /* exact by the C standard */
  if (a1 == 0.0) return 1.0;
  for (int i = 0; i < FSV_POW_MAX; i++) if (i < fsv_pow_n && fsv_pow_x[i] == a0 && fsv_pow_y[i] == a1) return fsv_pow_r[i];
  fsv_f64 r = FSV_NONDET_F64();
  if (a0 == 1.0) __CPROVER_assume(r == 1.0);
  else if (a0 >= 0.0 && FSV_ISFINITE(a1)) {
    __CPROVER_assume(r == r && r >= 0.0);
    if (a0 == 0.0 && a1 > 0.0) __CPROVER_assume(r == 0.0);
    for (int i = 0; i < FSV_POW_MAX; i++) if (i < fsv_pow_n && fsv_pow_y[i] == a1 && a1 > 0.0 && fsv_pow_x[i] >= 0.0) {
      if (fsv_pow_x[i] <= a0) __CPROVER_assume(fsv_pow_r[i] <= r);
      if (fsv_pow_x[i] >= a0) __CPROVER_assume(fsv_pow_r[i] >= r);
    }
  }
  __CPROVER_assert(fsv_pow_n < FSV_POW_MAX, "FSV: pow stub table large enough");
  if (fsv_pow_n < FSV_POW_MAX) { fsv_pow_x[fsv_pow_n] = a0; fsv_pow_y[fsv_pow_n] = a1; fsv_pow_r[fsv_pow_n] = r; fsv_pow_n++; }
  return r; })
#endif
#else
FSV_DEF_fsvx_pow({ return pow(a0, a1); })
#endif
#endif

/* exception class constructors/destructors: empty (the throw itself is modelled by __cxa_throw) */
#ifdef FSV_DEF__ZNSt13runtime_errorC1EPKc
FSV_DEF__ZNSt13runtime_errorC1EPKc({})
#endif
#ifdef FSV_DEF__ZNSt13runtime_errorC2ERKNSt7__cxx1112basic_stringIcSt11char_traitsIcESaIcEEE
FSV_DEF__ZNSt13runtime_errorC2ERKNSt7__cxx1112basic_stringIcSt11char_traitsIcESaIcEEE({})
#endif
#ifdef FSV_DEF__ZNSt13runtime_errorD0Ev
FSV_DEF__ZNSt13runtime_errorD0Ev({})
#endif
#ifdef FSV_DEF__ZNSt16invalid_argumentC1ERKNSt7__cxx1112basic_stringIcSt11char_traitsIcESaIcEEE
FSV_DEF__ZNSt16invalid_argumentC1ERKNSt7__cxx1112basic_stringIcSt11char_traitsIcESaIcEEE({})
#endif
#ifdef FSV_DEF__ZNSt16invalid_argumentC2EPKc
FSV_DEF__ZNSt16invalid_argumentC2EPKc({})
#endif
#ifdef FSV_DEF__ZNSt16invalid_argumentC2ERKNSt7__cxx1112basic_stringIcSt11char_traitsIcESaIcEEE
FSV_DEF__ZNSt16invalid_argumentC2ERKNSt7__cxx1112basic_stringIcSt11char_traitsIcESaIcEEE({})
#endif
#ifdef FSV_DEF__ZNSt16invalid_argumentD0Ev
FSV_DEF__ZNSt16invalid_argumentD0Ev({})
#endif
#ifdef FSV_DEF__ZNSt16invalid_argumentD2Ev
FSV_DEF__ZNSt16invalid_argumentD2Ev({})
#endif
#ifdef FSV_DEF__ZNSt12out_of_rangeC1ERKNSt7__cxx1112basic_stringIcSt11char_traitsIcESaIcEEE
FSV_DEF__ZNSt12out_of_rangeC1ERKNSt7__cxx1112basic_stringIcSt11char_traitsIcESaIcEEE({})
#endif
#ifdef FSV_DEF__ZNSt12out_of_rangeC2EPKc
FSV_DEF__ZNSt12out_of_rangeC2EPKc({})
#endif
#ifdef FSV_DEF__ZNSt12out_of_rangeC2ERKNSt7__cxx1112basic_stringIcSt11char_traitsIcESaIcEEE
FSV_DEF__ZNSt12out_of_rangeC2ERKNSt7__cxx1112basic_stringIcSt11char_traitsIcESaIcEEE({})
#endif
#ifdef FSV_DEF__ZNSt12out_of_rangeD0Ev
FSV_DEF__ZNSt12out_of_rangeD0Ev({})
#endif
#ifdef FSV_DEF__ZNSt12out_of_rangeD2Ev
FSV_DEF__ZNSt12out_of_rangeD2Ev({})
#endif
#ifdef FSV_DEF__ZNSt11logic_errorC1EPKc
FSV_DEF__ZNSt11logic_errorC1EPKc({})
#endif
#ifdef FSV_DEF__ZNSt11logic_errorC1ERKNSt7__cxx1112basic_stringIcSt11char_traitsIcESaIcEEE
FSV_DEF__ZNSt11logic_errorC1ERKNSt7__cxx1112basic_stringIcSt11char_traitsIcESaIcEEE({})
#endif
#ifdef FSV_DEF__ZNSt11logic_errorC2EPKc
FSV_DEF__ZNSt11logic_errorC2EPKc({})
#endif
#ifdef FSV_DEF__ZNSt11logic_errorC2ERKNSt7__cxx1112basic_stringIcSt11char_traitsIcESaIcEEE
FSV_DEF__ZNSt11logic_errorC2ERKNSt7__cxx1112basic_stringIcSt11char_traitsIcESaIcEEE({})
#endif
#ifdef FSV_DEF__ZNSt11logic_errorD0Ev
FSV_DEF__ZNSt11logic_errorD0Ev({})
#endif
#ifdef FSV_DEF__ZNSt11logic_errorD1Ev
FSV_DEF__ZNSt11logic_errorD1Ev({})
#endif
#ifdef FSV_DEF__ZNSt11logic_errorD2Ev
FSV_DEF__ZNSt11logic_errorD2Ev({})
#endif
#ifdef FSV_DEF__ZNSt12length_errorC1EPKc
FSV_DEF__ZNSt12length_errorC1EPKc({})
#endif
#ifdef FSV_DEF__ZNSt12length_errorC1ERKNSt7__cxx1112basic_stringIcSt11char_traitsIcESaIcEEE
FSV_DEF__ZNSt12length_errorC1ERKNSt7__cxx1112basic_stringIcSt11char_traitsIcESaIcEEE({})
#endif
#ifdef FSV_DEF__ZNSt12length_errorC2EPKc
FSV_DEF__ZNSt12length_errorC2EPKc({})
#endif
#ifdef FSV_DEF__ZNSt12length_errorC2ERKNSt7__cxx1112basic_stringIcSt11char_traitsIcESaIcEEE
FSV_DEF__ZNSt12length_errorC2ERKNSt7__cxx1112basic_stringIcSt11char_traitsIcESaIcEEE({})
#endif
#ifdef FSV_DEF__ZNSt12length_errorD0Ev
FSV_DEF__ZNSt12length_errorD0Ev({})
#endif
#ifdef FSV_DEF__ZNSt12length_errorD1Ev
FSV_DEF__ZNSt12length_errorD1Ev({})
#endif
#ifdef FSV_DEF__ZNSt12length_errorD2Ev
FSV_DEF__ZNSt12length_errorD2Ev({})
#endif
#ifdef FSV_DEF__ZNSt12domain_errorC1EPKc
FSV_DEF__ZNSt12domain_errorC1EPKc({})
#endif
#ifdef FSV_DEF__ZNSt12domain_errorC1ERKNSt7__cxx1112basic_stringIcSt11char_traitsIcESaIcEEE
FSV_DEF__ZNSt12domain_errorC1ERKNSt7__cxx1112basic_stringIcSt11char_traitsIcESaIcEEE({})
#endif
#ifdef FSV_DEF__ZNSt12domain_errorC2EPKc
FSV_DEF__ZNSt12domain_errorC2EPKc({})
#endif
#ifdef FSV_DEF__ZNSt12domain_errorC2ERKNSt7__cxx1112basic_stringIcSt11char_traitsIcESaIcEEE
FSV_DEF__ZNSt12domain_errorC2ERKNSt7__cxx1112basic_stringIcSt11char_traitsIcESaIcEEE({})
#endif
#ifdef FSV_DEF__ZNSt12domain_errorD0Ev
FSV_DEF__ZNSt12domain_errorD0Ev({})
#endif
#ifdef FSV_DEF__ZNSt12domain_errorD1Ev
FSV_DEF__ZNSt12domain_errorD1Ev({})
#endif
#ifdef FSV_DEF__ZNSt12domain_errorD2Ev
FSV_DEF__ZNSt12domain_errorD2Ev({})
#endif
#ifdef FSV_DEF__ZNSt11range_errorC1EPKc
FSV_DEF__ZNSt11range_errorC1EPKc({})
#endif
#ifdef FSV_DEF__ZNSt11range_errorC1ERKNSt7__cxx1112basic_stringIcSt11char_traitsIcESaIcEEE
FSV_DEF__ZNSt11range_errorC1ERKNSt7__cxx1112basic_stringIcSt11char_traitsIcESaIcEEE({})
#endif
#ifdef FSV_DEF__ZNSt11range_errorC2EPKc
FSV_DEF__ZNSt11range_errorC2EPKc({})
#endif
#ifdef FSV_DEF__ZNSt11range_errorC2ERKNSt7__cxx1112basic_stringIcSt11char_traitsIcESaIcEEE
FSV_DEF__ZNSt11range_errorC2ERKNSt7__cxx1112basic_stringIcSt11char_traitsIcESaIcEEE({})
#endif
#ifdef FSV_DEF__ZNSt11range_errorD0Ev
FSV_DEF__ZNSt11range_errorD0Ev({})
#endif
#ifdef FSV_DEF__ZNSt11range_errorD1Ev
FSV_DEF__ZNSt11range_errorD1Ev({})
#endif
#ifdef FSV_DEF__ZNSt11range_errorD2Ev
FSV_DEF__ZNSt11range_errorD2Ev({})
#endif
#ifdef FSV_DEF__ZNSt14overflow_errorC1EPKc
FSV_DEF__ZNSt14overflow_errorC1EPKc({})
#endif
#ifdef FSV_DEF__ZNSt14overflow_errorC1ERKNSt7__cxx1112basic_stringIcSt11char_traitsIcESaIcEEE
FSV_DEF__ZNSt14overflow_errorC1ERKNSt7__cxx1112basic_stringIcSt11char_traitsIcESaIcEEE({})
#endif
#ifdef FSV_DEF__ZNSt14overflow_errorC2EPKc
FSV_DEF__ZNSt14overflow_errorC2EPKc({})
#endif
#ifdef FSV_DEF__ZNSt14overflow_errorC2ERKNSt7__cxx1112basic_stringIcSt11char_traitsIcESaIcEEE
FSV_DEF__ZNSt14overflow_errorC2ERKNSt7__cxx1112basic_stringIcSt11char_traitsIcESaIcEEE({})
#endif
#ifdef FSV_DEF__ZNSt14overflow_errorD0Ev
FSV_DEF__ZNSt14overflow_errorD0Ev({})
#endif
#ifdef FSV_DEF__ZNSt14overflow_errorD1Ev
FSV_DEF__ZNSt14overflow_errorD1Ev({})
#endif
#ifdef FSV_DEF__ZNSt14overflow_errorD2Ev
FSV_DEF__ZNSt14overflow_errorD2Ev({})
#endif
