/* Harness-side API.  One harness source serves three builds:
 *   - cbmc            (__CPROVER__): inputs are nondet, FSV_ASSERT is a solver obligation
 *   - native random   (translation validation): inputs from a seeded PRNG, observations hashed
 *   - native replay   : inputs read from a counter-example file produced from a cbmc trace
 * A harness defines  void fsv_harness(void)  and declares its inputs as GLOBAL arrays whose
 * names start with in_  (the trace reader looks for assignments to in_*).
 */
#ifndef FSV_HARNESS_H
#define FSV_HARNESS_H
#include <stdint.h>
#include <stddef.h>
#include <float.h>
#include <math.h>

/* floating-point type of the encoding: binary64, or (FSV_FP_REDUCED, cbmc only) an IEEE-style format with an
   11-bit significand in a 64-bit container; inputs are then restricted to binary64's finite range */
#if defined(__CPROVER__) && defined(FSV_FP_REDUCED)
typedef __CPROVER_floatbv[64][10] fsv_f64;
fsv_f64 nondet_fsv_f64(void);
#define FSV_NONDET_F64() nondet_fsv_f64()
#define FSV_F64_RANGE(x) __CPROVER_assume((x) != (x) || (x) == (fsv_f64)0.0 || ((x) >= (fsv_f64)0x1p-1074 && (x) <= (fsv_f64)0x1p+1023) || ((x) <= -(fsv_f64)0x1p-1074 && (x) >= -(fsv_f64)0x1p+1023))
#else
typedef double fsv_f64;
#define FSV_NONDET_F64() nondet_double()
#define FSV_F64_RANGE(x) ((void)0)
#endif
#ifdef __CPROVER__
double nondet_double(void);
uint64_t nondet_u64(void);
uint8_t nondet_u8(void);
int nondet_int(void);
#define FSV_ASSUME(c) __CPROVER_assume(c)
#if defined(WITNESS) || defined(FSV_SAFETY_ONLY)
/* vacuity twin: only the assumptions and the control flow matter; the single obligation is FSV_END().
   FSV_SAFETY_ONLY (C08): the obligations are cbmc's memory-safety instrumentation, not the harness assertions */
#define FSV_ASSERT(c, msg) ((void)0)
#else
#define FSV_ASSERT(c, msg) __CPROVER_assert((c), "FSV: " msg)
#endif
#define FSV_IN_F64(a, n) do { for (int i_ = 0; i_ < (int)(n); i_++) { (a)[i_] = FSV_NONDET_F64(); FSV_F64_RANGE((a)[i_]); } } while (0)
#define FSV_IN_U64(a, n, lo, hi) do { for (int i_ = 0; i_ < (int)(n); i_++) { (a)[i_] = nondet_u64(); __CPROVER_assume((a)[i_] >= (uint64_t)(lo) && (a)[i_] <= (uint64_t)(hi)); } } while (0)
#define FSV_IN_U8(a, n, lo, hi) do { for (int i_ = 0; i_ < (int)(n); i_++) { (a)[i_] = nondet_u8(); __CPROVER_assume((a)[i_] >= (lo) && (a)[i_] <= (hi)); } } while (0)
#define FSV_OBS_U64(x) ((void)0)
#define FSV_OBS_F64(x) ((void)0)
#define FSV_ISNAN(x) ((x) != (x))
#define FSV_ISINF(x) ((x) == (fsv_f64)__builtin_inf() || (x) == -(fsv_f64)__builtin_inf())
#define FSV_ISFINITE(x) (!FSV_ISNAN(x) && !FSV_ISINF(x))
#define FSV_NOTE(...) ((void)0)
#ifdef WITNESS
#define FSV_END() __CPROVER_assert(0, "FSV-WITNESS: end of harness reachable")
#else
#define FSV_END() ((void)0)
#endif
#else
void fsvn_assume(int c);
void fsvn_assert(int c, const char* msg);
void fsvn_in_f64(const char* name, double* a, int n);
void fsvn_in_u64(const char* name, uint64_t* a, int n, uint64_t lo, uint64_t hi);
void fsvn_in_u8(const char* name, uint8_t* a, int n, unsigned lo, unsigned hi);
void fsvn_obs_u64(uint64_t x);
void fsvn_obs_f64(double x);
void fsvn_note(const char* fmt, ...);
#define FSV_ASSUME(c) fsvn_assume(!!(c))
#define FSV_ASSERT(c, msg) fsvn_assert(!!(c), msg)
#define FSV_IN_F64(a, n) fsvn_in_f64(#a, (a), (n))
#define FSV_IN_U64(a, n, lo, hi) fsvn_in_u64(#a, (a), (n), (lo), (hi))
#define FSV_IN_U8(a, n, lo, hi) fsvn_in_u8(#a, (a), (n), (lo), (hi))
#define FSV_OBS_U64(x) fsvn_obs_u64((uint64_t)(x))
#define FSV_OBS_F64(x) fsvn_obs_f64((double)(x))
#define FSV_ISNAN(x) __builtin_isnan(x)
#define FSV_ISINF(x) __builtin_isinf(x)
#define FSV_ISFINITE(x) __builtin_isfinite(x)
#define FSV_NOTE(...) fsvn_note(__VA_ARGS__)
#define FSV_END() ((void)0)
#endif

/* expectation flag of the exception model (defined in rt_model.h inside the translated unit,
   and in fsv_native.c for native builds where real C++ exceptions are caught by the unit) */
extern int fsv_expect_throw;

#ifdef __CPROVER__
#define FSV_THROWN() __CPROVER_assert(0, "FSV: unit returned an error code under cbmc (throw model bypassed)")
#else
void fsvn_thrown(void);
#define FSV_THROWN() fsvn_thrown()
#endif
/* call an entry point that returns non-zero when the real C++ code threw (native real build only;
   in translated code a throw ends the path inside the __cxa_throw model) */
#define FSV_MAY_THROW(call) do { if ((call) != 0) FSV_THROWN(); FSV_ASSERT(!fsv_expect_throw, "an error was expected but the call returned normally"); } while (0)

/* pow as seen by the unit: the stub of rt_model.h under cbmc (consistent with the unit's own calls), libm natively */
#if defined(__CPROVER__) && defined(FSV_POW_SEQ)
/* oracle side of the call-sequence pow stub: j-th non-trivial pow call of the oracle = j-th of the unit (same order) */
#ifndef FSV_POW_MAX
#define FSV_POW_MAX 12
#endif
extern fsv_f64 fsv_pow_val[FSV_POW_MAX], fsv_pow_ax[FSV_POW_MAX], fsv_pow_ay[FSV_POW_MAX];
extern int fsv_pow_calls;
static int fsv_pow_oracle_k = 0;
static inline fsv_f64 fsv_pow_nth(fsv_f64 x, fsv_f64 y) {
  if (y == 1.0) return x;
  if (y == 0.0) return 1.0;
  int k = fsv_pow_oracle_k < FSV_POW_MAX ? fsv_pow_oracle_k : FSV_POW_MAX - 1;
  fsv_pow_oracle_k++;
  __CPROVER_assert(k < fsv_pow_calls, "FSV: the code under test calls pow as often as the discrete equation requires");
  __CPROVER_assert((fsv_pow_ax[k] == x || (fsv_pow_ax[k] != fsv_pow_ax[k] && x != x)) && fsv_pow_ay[k] == y, "FSV: pow is applied to the arguments the discrete equation prescribes (same call order)");
  return fsv_pow_val[k];
}
#define FSV_POW(x, y) fsv_pow_nth((x), (y))
#elif defined(__CPROVER__)
fsv_f64 fsvx_pow(fsv_f64, fsv_f64);
#define FSV_POW(x, y) fsvx_pow((x), (y))
#else
#define FSV_POW(x, y) pow((x), (y))
#endif

/* a call that MAY end in an error (any error path is accepted and ends the case), nothing is asserted about it */
#ifdef __CPROVER__
#define FSV_THROW_ALLOWED(call) do { fsv_expect_throw = 1; if ((call) != 0) FSV_THROWN(); fsv_expect_throw = 0; } while (0)
#else
#define FSV_THROW_ALLOWED(call) do { fsv_expect_throw = 1; if ((call) != 0) FSV_THROWN(); fsv_expect_throw = 0; } while (0)
#endif

void fsv_harness(void);
#endif
