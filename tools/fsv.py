#!/usr/bin/env python3
"""fsv: runner for solver-based checks of fastscapelib.

Pipeline per query (see DESIGN.md section 2):
  units/<u>.cpp --clang++-14 -O2 -emit-llvm--> unit.ll --ll2c.py--> unit.c (+rt_model.h)
  cbmc unit.c harness.c  (main query)  +  -DWITNESS twin (vacuity guard)
  native differential run of the same harness against (a) g++ build of the real C++ unit and
  (b) gcc build of the translated C  (translation validation)
  counter-example -> inputs file -> native replay against the real C++ build.
"""
import concurrent.futures as cf
import hashlib
import json
import os
import re
import shutil
import subprocess
import sys
import threading
import time

VERIF = os.path.dirname(os.path.dirname(os.path.abspath(__file__)))
REPO = os.environ.get('FSV_REPO', '/repo')
BUILD = os.path.join(VERIF, 'build')
OUT = os.path.join(VERIF, 'out')
RT = os.path.join(VERIF, 'rt')
UNITS = os.path.join(VERIF, 'units')
HARN = os.path.join(VERIF, 'harness')
SHIM = os.path.join(VERIF, 'shim')

CLANG_FLAGS = ['-std=c++17', '-O2', '-mllvm', '-inline-threshold=5000', '-DNDEBUG', '-fno-vectorize',
               '-fno-slp-vectorize', '-fno-unroll-loops', '-ffp-contract=off', '-fignore-exceptions',
               '-fno-threadsafe-statics', '-fno-access-control', '-DFSV_IR', '-w', '-gline-tables-only']
GXX_FLAGS = ['-std=c++17', '-O1', '-DNDEBUG', '-ffp-contract=off', '-fno-access-control', '-w']

_lock = threading.Lock()
_unit_locks = {}


def sh(cmd, timeout=None, cwd=None, env=None, mem_gb=None, cancel=None):
    """run; returns (rc, stdout, stderr, wall, maxrss_kb); rc=-9 on timeout; rc=-8 if cancelled through the event"""
    t0 = time.time()
    if cancel is not None:
        import tempfile
        fo, fe = tempfile.TemporaryFile(), tempfile.TemporaryFile()
        pre = None
        if mem_gb:
            import resource

            def pre():
                resource.setrlimit(resource.RLIMIT_AS, (int(mem_gb * 2 ** 30), int(mem_gb * 2 ** 30)))
        p = subprocess.Popen(cmd, stdout=fo, stderr=fe, cwd=cwd, env=env, preexec_fn=pre, start_new_session=True)
        rc = None
        while True:
            rc = p.poll()
            if rc is not None:
                break
            if cancel.is_set() or (timeout and time.time() - t0 > timeout):
                try:
                    os.killpg(p.pid, 9)
                except Exception:
                    p.kill()
                p.wait()
                rc = -8 if cancel.is_set() else -9
                break
            time.sleep(0.2)
        fo.seek(0); fe.seek(0)
        o, e = fo.read(), fe.read()
        fo.close(); fe.close()
        return rc, o.decode('utf-8', 'replace'), e.decode('utf-8', 'replace'), time.time() - t0, 0
    pre = None
    if mem_gb:
        import resource

        def pre():
            resource.setrlimit(resource.RLIMIT_AS, (int(mem_gb * 2 ** 30), int(mem_gb * 2 ** 30)))
    try:
        p = subprocess.Popen(cmd, stdout=subprocess.PIPE, stderr=subprocess.PIPE, cwd=cwd, env=env,
                             preexec_fn=pre, start_new_session=True)
        try:
            o, e = p.communicate(timeout=timeout)
            rc = p.returncode
        except subprocess.TimeoutExpired:
            try:
                os.killpg(p.pid, 9)
            except Exception:
                p.kill()
            o, e = p.communicate()
            rc = -9
    except FileNotFoundError as ex:
        return 127, '', str(ex), 0.0, 0
    import resource as _r
    return rc, o.decode('utf-8', 'replace'), e.decode('utf-8', 'replace'), time.time() - t0, 0


def _pid_alive(path):
    m = re.search(r'smt2_dec_\w+?_(\d+)\.', os.path.basename(path))
    if not m:
        return False
    try:
        os.kill(int(m.group(1)), 0)
        return True
    except OSError:
        return False


def dflags(defs):
    out = []
    for k, v in sorted((defs or {}).items()):
        out.append('-D%s' % k if v is None or v is True else '-D%s=%s' % (k, v))
    return out


def key_of(*parts):
    h = hashlib.sha1(json.dumps(parts, sort_keys=True, default=str).encode()).hexdigest()[:10]
    return h


class BuildError(Exception):
    pass


_tables_lock = threading.Lock()


def tables_dir():
    """headers with adjacency tables dumped from the real grid classes of /repo (rebuilt per run)"""
    d = os.path.join(BUILD, 'tables')
    with _tables_lock:
        if os.path.exists(os.path.join(d, 'ok')):
            return d
        os.makedirs(d, exist_ok=True)
        rc, o, e, w, _ = sh(['g++', '-std=c++17', '-O1', '-w', '-I' + os.path.join(REPO, 'include'),
                             os.path.join(VERIF, 'tools', 'dump_tables.cpp'), '-o', os.path.join(d, 'dump')], timeout=600)
        if rc != 0:
            raise BuildError('table dumper build failed:\n' + e[-2000:])
        rc, o, e, w, _ = sh([os.path.join(d, 'dump'), d], timeout=120)
        if rc != 0:
            raise BuildError('table dumper failed rc=%s:\n%s' % (rc, e[-2000:]))
        open(os.path.join(d, 'ok'), 'w').write('ok')
        return d


def table_info(name):
    """(N, D) of a dumped table"""
    t = open(os.path.join(tables_dir(), name + '.h')).read()
    return int(re.search(r'#define T_N (\d+)', t).group(1)), int(re.search(r'#define T_D (\d+)', t).group(1))


def build_unit(unit, udefs, shim=True, check_nsw=False, log=None):
    """compile+translate one unit variant; cached per process run (always rebuilt from /repo at start of a run
    because the build directory is wiped by Runner)"""
    k = '%s_%s' % (os.path.splitext(unit)[0], key_of(unit, udefs, shim, check_nsw))
    with _lock:
        lk = _unit_locks.setdefault(k, threading.Lock())
    d = os.path.join(BUILD, k)
    with lk:
        info_p = os.path.join(d, 'unit.json')
        if os.path.exists(info_p):
            return json.load(open(info_p))
        os.makedirs(d, exist_ok=True)
        src = os.path.join(UNITS, unit)
        inc = ['-I' + os.path.join(REPO, 'include'), '-I' + UNITS]
        if shim:
            inc = ['-I' + SHIM] + inc
        t0 = time.time()
        ll = os.path.join(d, 'unit.ll')
        rc, o, e, w, _ = sh(['clang++-14'] + CLANG_FLAGS + dflags(udefs) + inc + ['-S', '-emit-llvm', src, '-o', ll],
                            timeout=600)
        if rc != 0:
            raise BuildError('clang failed for %s %s:\n%s' % (unit, udefs, e[-3000:]))
        cmd = [sys.executable, os.path.join(VERIF, 'tools', 'll2c.py'), ll, '-o', os.path.join(d, 'unit.c'),
               '--header', os.path.join(d, 'unit.h'), '--info', os.path.join(d, 'tx.json'),
               '--dbgmap', os.path.join(d, 'dbgmap.json')]
        if check_nsw:
            cmd.append('--check-nsw')
        rc, o, e, w2, _ = sh(cmd, timeout=600)
        if rc != 0:
            raise BuildError('ll2c failed for %s %s:\n%s' % (unit, udefs, e[-3000:]))
        tx = json.load(open(os.path.join(d, 'tx.json')))
        # native objects: real C++ (no shim: the unshimmed library) and translated C
        rc, o, e, w3, _ = sh(['g++'] + GXX_FLAGS + dflags(udefs) + ['-I' + os.path.join(REPO, 'include'), '-I' + UNITS,
                                                                   '-c', src, '-o', os.path.join(d, 'real.o')], timeout=900)
        if rc != 0:
            raise BuildError('g++ failed for %s %s:\n%s' % (unit, udefs, e[-3000:]))
        rc, o, e, w4, _ = sh(['gcc', '-O1', '-w', '-ffp-contract=off', '-DFSV_TRANSLATED', '-I' + RT, '-c',
                              os.path.join(d, 'unit.c'), '-o', os.path.join(d, 'tx.o')], timeout=900)
        if rc != 0:
            raise BuildError('gcc of translated C failed for %s %s:\n%s' % (unit, udefs, e[-3000:]))
        info = dict(dir=d, unit=unit, udefs=udefs, functions=tx['functions'], externals=tx['externals'],
                    build_s=round(time.time() - t0, 1))
        json.dump(info, open(info_p, 'w'))
        return info


def native_build(u, harness, hdefs):
    """link the harness natively against real C++ and translated C; returns (real_exe, tx_exe)"""
    d = u['dir']
    k = key_of(harness, hdefs)
    with _lock:
        lk = _unit_locks.setdefault(d + k, threading.Lock())
    with lk:
        real = os.path.join(d, 'nat_real_' + k)
        tx = os.path.join(d, 'nat_tx_' + k)
        if os.path.exists(real) and os.path.exists(tx):
            return real, tx
        hsrc = os.path.join(HARN, harness)
        common = ['-O1', '-w', '-ffp-contract=off', '-I' + RT, '-I' + d, '-I' + HARN, '-I' + tables_dir()] + dflags(hdefs)
        for (exe, extra, obj, linker) in ((real, [], 'real.o', 'g++'), (tx, ['-DFSV_TRANSLATED'], 'tx.o', 'gcc')):
            ho = exe + '_h.o'
            no = exe + '_n.o'
            rc, o, e, w, _ = sh(['gcc'] + common + extra + ['-c', hsrc, '-o', ho], timeout=300)
            if rc != 0:
                raise BuildError('gcc harness %s failed:\n%s' % (harness, e[-3000:]))
            rc, o, e, w, _ = sh(['gcc'] + common + extra + ['-c', os.path.join(RT, 'fsv_native.c'), '-o', no], timeout=300)
            if rc != 0:
                raise BuildError('gcc native driver failed:\n%s' % e[-3000:])
            rc, o, e, w, _ = sh([linker, ho, no, os.path.join(d, obj), '-lm', '-lpthread', '-o', exe], timeout=300)
            if rc != 0:
                raise BuildError('link %s failed:\n%s' % (exe, e[-3000:]))
        return real, tx


def sanitizer_replay(u, harness, hdefs, cex_path):
    """replay a counter-example against the REAL C++ unit built with ASan+UBSan; returns (confirmed, report)"""
    d = u['dir']
    k = key_of(harness, hdefs, 'asan')
    exe = os.path.join(d, 'nat_asan_' + k)
    san = ['-fsanitize=address,undefined', '-fno-sanitize-recover=undefined', '-g', '-O1', '-fno-omit-frame-pointer']
    with _lock:
        lk = _unit_locks.setdefault(d + 'asan', threading.Lock())
    with lk:
        ro = os.path.join(d, 'real_asan.o')
        if not os.path.exists(ro):
            rc, o, e, w, _ = sh(['g++'] + GXX_FLAGS + san + dflags(u['udefs']) + ['-I' + os.path.join(REPO, 'include'), '-I' + UNITS,
                                                                                '-c', os.path.join(UNITS, u['unit']), '-o', ro], timeout=900)
            if rc != 0:
                raise BuildError('asan build of unit failed: ' + e[-1500:])
        common = ['-w', '-ffp-contract=off', '-I' + RT, '-I' + d, '-I' + HARN, '-I' + tables_dir()] + dflags(hdefs) + san
        rc, o, e, w, _ = sh(['gcc'] + common + ['-c', os.path.join(HARN, harness), '-o', exe + '_h.o'], timeout=300)
        rc2, o2, e2, w, _ = sh(['gcc'] + common + ['-c', os.path.join(RT, 'fsv_native.c'), '-o', exe + '_n.o'], timeout=300)
        rc3, o3, e3, w, _ = sh(['g++'] + san + [exe + '_h.o', exe + '_n.o', ro, '-lm', '-lpthread', '-o', exe], timeout=300)
        if rc or rc2 or rc3:
            raise BuildError('asan link failed: ' + (e + e2 + e3)[-1500:])
    env = dict(os.environ, ASAN_OPTIONS='detect_leaks=0:abort_on_error=0', UBSAN_OPTIONS='print_stacktrace=1')
    rc, o, e, w, _ = sh([exe, 'replay', cex_path], timeout=120, env=env)
    rep = (e or '')
    confirmed = rc != 0 and ('AddressSanitizer' in rep or 'runtime error' in rep)
    return confirmed, rep[:3000]


def differential(u, harness, hdefs, count, seed):
    real, tx = native_build(u, harness, hdefs)
    rc1, o1, e1, w1, _ = sh([real, 'random', str(count), str(seed)], timeout=600)
    rc2, o2, e2, w2, _ = sh([tx, 'random', str(count), str(seed)], timeout=600)
    l1, l2 = o1.strip().split('\n'), o2.strip().split('\n')
    res = dict(vectors=count, real_rc=rc1, tx_rc=rc2, mismatches=0, skipped=0, native_fail=0, first_fail=None,
               first_mismatch=None)
    if rc1 != 0 or rc2 != 0 or len(l1) != len(l2):
        res['mismatches'] = -1
        res['first_mismatch'] = 'rc real=%s tx=%s lines %d/%d stderr: %s | %s' % (rc1, rc2, len(l1), len(l2), e1[-300:], e2[-300:])
        return res
    for a, b in zip(l1, l2):
        if a != b:
            res['mismatches'] += 1
            if res['first_mismatch'] is None:
                res['first_mismatch'] = 'real: %s | translated: %s' % (a, b)
        if ' skip' in a:
            res['skipped'] += 1
        if ' FAIL:' in a:
            res['native_fail'] += 1
            if res['first_fail'] is None:
                res['first_fail'] = a
    return res


def loop_unwindset(u, harness, hdefs, rules):
    """per-loop bounds: rules = [(regex over '<source basename>:<function>', bound)], first match wins.
    Loops of the translated unit are attributed to library source functions through the debug locations that
    clang attached to the IR branch instructions (dbgmap.json written by ll2c)"""
    d = u['dir']
    cmd = ['cbmc', os.path.join(d, 'unit.c'), os.path.join(HARN, harness), '-I' + RT, '-I' + d, '-I' + HARN,
           '-I' + tables_dir(), '--function', 'fsv_harness'] + dflags(hdefs) + ['--show-loops', '--json-ui']
    rc, o, e, w, _ = sh(cmd, timeout=300)
    try:
        js = json.loads(o)
    except Exception:
        raise BuildError('show-loops failed: ' + (o[-500:] + e[-500:]))
    dbg = json.load(open(os.path.join(d, 'dbgmap.json')))
    out = {}
    desc = {}
    for item in js:
        for lp in item.get('loops', []) if isinstance(item, dict) else []:
            loc = lp.get('sourceLocation', {})
            f = loc.get('file', '')
            key = None
            if f.endswith('unit.c'):
                m = dbg.get(str(loc.get('line')))
                if m:
                    key = '%s:%s' % (os.path.basename(m[0] or ''), m[2])
            else:
                key = '%s:%s' % (os.path.basename(f), loc.get('function'))
            if key is None:
                continue
            for rx, b in rules:
                if re.search(rx, key):
                    out[lp['name']] = b
                    desc[lp['name']] = key
                    break
    return out, desc


CBMC_BASE = ['--no-standard-checks', '--no-malloc-may-fail', '--drop-unused-functions', '--unwinding-assertions',
             '--json-ui', '--verbosity', '8', '--object-bits', '10']
SAFETY = ['--bounds-check', '--pointer-check', '--div-by-zero-check', '--undefined-shift-check']


def reduced_to_double_bits(v):
    """bits of the reduced format (1 sign, 53 exponent, 10 fraction) -> bits of the binary64 with the same value"""
    import struct
    sgn = v >> 63
    e = (v >> 10) & ((1 << 53) - 1)
    f = v & 1023
    bias = (1 << 52) - 1
    if e == (1 << 53) - 1:
        d = float('nan') if f else float('inf')
    elif e == 0:
        d = 0.0
    else:
        ex = e - bias
        if ex > 1023:
            d = float('inf')
        elif ex < -1074:
            d = 0.0
        else:
            import math
            d = math.ldexp(1.0 + f / 1024.0, ex)
    if sgn:
        d = -d
    return struct.unpack('<Q', struct.pack('<d', d))[0]


def run_cbmc(u, harness, hdefs, unwind, unwindset, safety, timeout, witness=False, trace=True, solver=None,
             mem_gb=None, extra=None, reduced=False, cancel=None, safety_only=False):
    d = u['dir']
    cmd = ['cbmc', os.path.join(d, 'unit.c'), os.path.join(HARN, harness), '-I' + RT, '-I' + d, '-I' + HARN,
           '-I' + tables_dir(), '--function', 'fsv_harness'] + dflags(hdefs)
    if witness:
        cmd.append('-DWITNESS')
    if reduced:
        cmd.append('-DFSV_FP_REDUCED')
    if safety_only and not witness:
        cmd.append('-DFSV_SAFETY_ONLY')
    cmd += CBMC_BASE
    if safety:
        cmd += SAFETY
    if unwind:
        cmd += ['--unwind', str(unwind)]
    if unwindset:
        cmd += ['--unwindset', ','.join('%s:%d' % (k, v) for k, v in unwindset.items())]
    if trace and not witness:
        cmd.append('--trace')
    if solver == 'cadical':
        cmd += ['--sat-solver', 'cadical']
    elif solver == 'kissat':
        cmd += ['--external-sat-solver', 'kissat']
    elif solver == 'cvc5':
        cmd += ['--cvc5']
    elif solver == 'z3':
        cmd += ['--z3']
    if extra:
        cmd += extra
    # cbmc writes the SMT2 problem of its --cvc5 back end to $TMPDIR and only removes it on a normal exit; runs that are
    # cancelled (race) or time out would leave up to gigabytes behind: keep them under the per-run build directory
    tmpd = os.path.join(BUILD, 'tmp')
    os.makedirs(tmpd, exist_ok=True)
    rc, o, e, w, _ = sh(cmd, timeout=timeout, mem_gb=mem_gb, cancel=cancel, env=dict(os.environ, TMPDIR=tmpd))
    if rc in (-8, -9):
        import glob
        for f in glob.glob(os.path.join(tmpd, 'smt2_dec_*')):
            try:
                if time.time() - os.path.getmtime(f) > 5 and not _pid_alive(f):
                    os.remove(f)
            except OSError:
                pass
    res = dict(cmd=' '.join(cmd), rc=rc, wall_s=round(w, 2), status=None, failed=[], props=0, trace_inputs=None, solver=solver or 'minisat',
               vccs=None, remaining=None, solver_s=None, errors=[])
    if rc == -9:
        res['status'] = 'TIMEOUT'
        return res
    if rc == -8:
        res['status'] = 'CANCELLED'
        return res
    try:
        js = json.loads(o)
    except Exception:
        res['status'] = 'ERROR'
        res['errors'].append('unparsable cbmc output rc=%s: %s %s' % (rc, o[-1500:], e[-1500:]))
        return res
    for item in js:
        if 'messageText' in item:
            t = item['messageText']
            m = re.search(r'Generated (\d+) VCC\(s\), (\d+) remaining', t)
            if m:
                res['vccs'], res['remaining'] = int(m.group(1)), int(m.group(2))
            m = re.search(r'Runtime Solver: ([\d.e+-]+)s', t)
            if m:
                res['solver_s'] = (res['solver_s'] or 0) + float(m.group(1))
            m = re.search(r'Runtime decision procedure: ([\d.e+-]+)s', t)
            if m:
                res['solver_s'] = float(m.group(1))
            if item.get('messageType') == 'ERROR':
                res['errors'].append(t[:500])
        if 'result' in item:
            for r in item['result']:
                res['props'] += 1
                if r['status'] == 'FAILURE':
                    f = dict(property=r.get('property'), description=r.get('description'),
                             loc=(r.get('sourceLocation') or {}))
                    ins = {}
                    for st in r.get('trace', []) or []:
                        if st.get('stepType') == 'assignment':
                            lhs = st.get('lhs', '')
                            if lhs.startswith('in_') and st.get('value'):
                                v = st['value']
                                b = v.get('binary')
                                if b is None and v.get('name') == 'integer':
                                    b = bin(int(v['data']))[2:]
                                if b is not None and re.fullmatch(r'[01]+', b):
                                    val = int(b, 2)
                                    if reduced and v.get('name') == 'float' and len(b) == 64:
                                        val = reduced_to_double_bits(val)
                                    ins[lhs] = val
                    f['inputs'] = ins
                    res['failed'].append(f)
        if 'cProverStatus' in item:
            res['status'] = {'success': 'SUCCESS', 'failure': 'FAILURE'}.get(item['cProverStatus'], 'ERROR')
    if res['status'] is None:
        res['status'] = 'ERROR'
        res['errors'].append('no cProverStatus; rc=%s stderr=%s' % (rc, e[-800:]))
    return res


def classify(f):
    d = f.get('description') or ''
    if d.startswith('FSV-WITNESS'):
        return 'witness'
    if d.startswith('FSV:'):
        return 'property'
    if 'unwinding assertion' in d:
        return 'unwind'
    if 'recursion unwinding' in d:
        return 'unwind'
    return 'safety'


def write_cex(path, inputs):
    """inputs: {'in_e[0l]': int, ...} -> file of 'name idx hex'"""
    lines = []
    for lhs, val in sorted(inputs.items()):
        m = re.fullmatch(r'(in_\w+)(?:\[(\d+)l?\])?', lhs)
        if not m:
            continue
        lines.append('%s %d %x' % (m.group(1), int(m.group(2) or 0), val))
    os.makedirs(os.path.dirname(path), exist_ok=True)
    open(path, 'w').write('\n'.join(lines) + '\n')


def replay(u, harness, hdefs, cex_path, translated=False):
    real, tx = native_build(u, harness, hdefs)
    rc, o, e, w, _ = sh([tx if translated else real, 'replay', cex_path], timeout=120)
    return rc, o


class Query:
    def __init__(self, qid, unit, harness, udefs=None, hdefs=None, unwind=None, unwindset=None, safety=False,
                 timeout=600, expect='pass', kf=None, diff=200, solver='auto', shim=True, check_nsw=False,
                 note='', bounds=None, mem_gb=12, extra=None, want='property', sat_cap=40, loops=None, kf_marker=None, reduced=False):
        self.qid, self.unit, self.harness = qid, unit, harness
        self.udefs, self.hdefs = udefs or {}, hdefs or {}
        self.unwind, self.unwindset, self.safety, self.timeout = unwind, unwindset, safety, timeout
        self.expect = expect      # 'pass' | 'finding' (a counter-example is expected and must lie in known finding kf)
        self.kf = kf
        self.diff = diff
        self.solver = solver
        self.shim = shim
        self.check_nsw = check_nsw
        self.note = note
        self.bounds = bounds or {}
        self.mem_gb = mem_gb
        self.extra = extra
        self.want = want          # which failure class decides this query: 'property' or 'safety'
        self.reduced = reduced    # encode double as the 11-bit-significand format (cbmc only); see DESIGN.md 3.3
        self.kf_marker = kf_marker  # text the native replay must print for a counter-example to count as the known finding
        self.loops = loops        # [(regex over 'file:function', bound)] -> --unwindset via debug locations
        self.sat_cap = sat_cap    # solver='auto': seconds given to the SAT back end before falling back to cbmc --cvc5


class CustomQuery:
    """a query decided by another solver-based engine (e.g. tools/pool_hb.py: z3 over events extracted from the IR)"""
    def __init__(self, qid, fn, expect='pass', kf=None, bounds=None, note='', kf_marker=None):
        self.qid, self.fn, self.expect, self.kf, self.bounds, self.note, self.kf_marker = qid, fn, expect, kf, bounds or {}, note, kf_marker
        self.unit = self.harness = None
        self.udefs = self.hdefs = {}
        self.shim = False
        self.timeout = 900


def run_query(q, prop, seed, outdir):
    """returns result dict with verdict in PASS | CEX | ERROR"""
    if isinstance(q, CustomQuery):
        t0 = time.time()
        try:
            r = q.fn(q, prop, seed, outdir)
        except Exception as ex:  # noqa
            import traceback
            r = dict(verdict='ERROR', error='custom engine failed: ' + traceback.format_exc()[-1500:])
        r.setdefault('qid', q.qid)
        r.setdefault('bounds', q.bounds)
        r.setdefault('note', q.note)
        r.setdefault('expect', q.expect)
        r.setdefault('kf', q.kf)
        r.setdefault('wall_s', round(time.time() - t0, 1))
        return r
    r = dict(qid=q.qid, unit=q.unit, harness=q.harness, udefs=q.udefs, hdefs=q.hdefs, bounds=q.bounds,
             unwind=q.unwind, unwindset=q.unwindset, note=q.note, expect=q.expect, kf=q.kf, reduced_precision=q.reduced)
    t0 = time.time()
    try:
        u = build_unit(q.unit, q.udefs, shim=q.shim, check_nsw=q.check_nsw)
    except BuildError as ex:
        r.update(verdict='ERROR', error=str(ex)[-2000:], wall_s=round(time.time() - t0, 1))
        return r
    r['functions'] = u['functions']
    r['externals'] = u['externals']
    try:
        if q.diff:
            r['differential'] = differential(u, q.harness, q.hdefs, q.diff, seed)
        if q.loops:
            us, desc = loop_unwindset(u, q.harness, q.hdefs, q.loops)
            q.unwindset = dict(q.unwindset or {}, **us)
            r['unwindset'] = q.unwindset
            r['unwindset_sources'] = desc

        def solve(witness):
            kw = dict(witness=witness, trace=not witness, mem_gb=q.mem_gb, extra=q.extra, reduced=q.reduced, safety_only=(q.want == 'safety'))
            saf = q.safety and not witness
            if q.solver == 'race':
                # SAT (cadical) and SMT (cvc5) side by side: cvc5 proves FP equalities by term sharing, SAT finds counter-examples fast
                ev = threading.Event()
                out = {}

                def one(sv):
                    rr = run_cbmc(u, q.harness, q.hdefs, q.unwind, q.unwindset, saf, q.timeout, solver=sv, cancel=ev, **kw)
                    if rr['status'] in ('SUCCESS', 'FAILURE') and not ev.is_set():
                        out.setdefault('win', rr)
                        ev.set()
                    out[sv] = rr
                ts = [threading.Thread(target=one, args=(sv,)) for sv in ('cadical', 'cvc5')]
                for t in ts:
                    t.start()
                for t in ts:
                    t.join()
                if 'win' in out:
                    return out['win']
                rr = out.get('cvc5') or out.get('cadical')
                if rr['status'] == 'CANCELLED':
                    rr['status'] = 'ERROR'
                return rr
            if q.solver != 'auto':
                return run_cbmc(u, q.harness, q.hdefs, q.unwind, q.unwindset, saf, q.timeout, solver=q.solver, **kw)
            r1 = run_cbmc(u, q.harness, q.hdefs, q.unwind, q.unwindset, saf, min(q.sat_cap, q.timeout), solver='cadical', **kw)
            if r1['status'] == 'TIMEOUT' or (r1['status'] == 'ERROR' and 'out of memory' in ' '.join(r1['errors'])):
                r2 = run_cbmc(u, q.harness, q.hdefs, q.unwind, q.unwindset, saf, q.timeout, solver='cvc5', **kw)
                r2['wall_s'] = round(r2['wall_s'] + r1['wall_s'], 2)
                return r2
            return r1
        main = solve(False)
        wit = solve(True)
    except BuildError as ex:
        r.update(verdict='ERROR', error=str(ex)[-2000:], wall_s=round(time.time() - t0, 1))
        return r
    r['cbmc'] = {k: main[k] for k in ('status', 'wall_s', 'props', 'vccs', 'remaining', 'solver_s', 'errors', 'cmd', 'solver')}
    r['witness'] = dict(status=wit['status'], wall_s=wit['wall_s'])
    r['wall_s'] = round(time.time() - t0, 1)
    # vacuity guard
    wit_ok = wit['status'] == 'FAILURE' and any(classify(f) == 'witness' for f in wit['failed'])
    r['witness']['reachable'] = wit_ok
    if main['status'] in ('TIMEOUT', 'ERROR'):
        r.update(verdict='ERROR', error='cbmc %s %s' % (main['status'], '; '.join(main['errors'])[:800]))
        return r
    if not wit_ok:
        r.update(verdict='ERROR', error='witness twin not reachable (status %s): vacuous harness or cut path; %s'
                 % (wit['status'], [f.get('description') for f in wit['failed']][:5]))
        return r
    d = r.get('differential')
    if d and d['mismatches'] != 0:
        r.update(verdict='ERROR', error='translation validation failed: %s' % d['first_mismatch'])
        return r
    fails = main['failed']
    classes = {}
    for f in fails:
        classes.setdefault(classify(f), []).append(f)
    r['failed'] = [dict(cls=classify(f), description=f['description'], loc='%s:%s' % (f['loc'].get('file'), f['loc'].get('line')))
                   for f in fails][:20]
    if 'unwind' in classes:
        r.update(verdict='ERROR', error='unwinding assertion failed (bound too small or non-terminating loop): %s'
                 % [(f['description'], f['loc'].get('function')) for f in classes['unwind']][:4])
        return r
    deciding = classes.get(q.want, [])
    if not deciding:
        r['verdict'] = 'PASS'
        if d and d['native_fail'] and q.want == 'property':
            r.update(verdict='ERROR', error='solver says the assertions hold but the native run of the real code failed one: %s' % d['first_fail'])
        return r
    # counter-example: replay natively against the real code
    f = deciding[0]
    cex = os.path.join(outdir, '%s.cex' % re.sub(r'[^\w.-]', '_', q.qid))
    write_cex(cex, f['inputs'])
    r['cex'] = cex
    r['cex_description'] = f['description']
    r['cex_inputs'] = {k: ('%x' % v) for k, v in sorted(f['inputs'].items())}
    if q.want == 'safety':
        r['safety_failures'] = [dict(description=x['description'], function=x['loc'].get('function'), line=x['loc'].get('line')) for x in deciding][:10]
        try:
            ok, rep = sanitizer_replay(u, q.harness, q.hdefs, cex)
        except BuildError as ex:
            r.update(verdict='ERROR', error=str(ex)[-1500:])
            return r
        r['replay_out'] = rep[-2500:]
        r['replay_rc'] = 1 if ok else 0
        if ok:
            r['verdict'] = 'CEX'
            r['in_known_class'] = bool(q.kf_marker) and (q.kf_marker in rep)
        else:
            r.update(verdict='ERROR', error='cbmc reports a memory-safety failure (%s) that ASan/UBSan do not confirm on the real code: model imprecision or an '
                     'undefined-behaviour class no sanitizer sees; not reported as a violation' % deciding[0]['description'])
        return r
    rc, o = replay(u, q.harness, q.hdefs, cex)
    r['replay_rc'] = rc
    r['replay_out'] = o[-1500:]
    if rc == 1:
        r['verdict'] = 'CEX'
        r['in_known_class'] = bool(q.kf_marker) and (q.kf_marker in o)
    else:
        rc2, o2 = replay(u, q.harness, q.hdefs, cex, translated=True)
        r.update(verdict='ERROR', error='counter-example did not reproduce on the real code (rc=%s; translated rc=%s): model/stub imprecision, not reported' % (rc, rc2))
    return r
