// Dumps adjacency / distance / area / status tables of REAL fastscapelib grids as C headers
// (one header per configuration) so that flow harnesses over the table grid use exactly what the
// real grid classes of /repo's current tree produce.  Rebuilt and re-run on every check run.
#include <cstdio>
#include <string>
#include <vector>
#include <array>
#include "fastscapelib/grid/profile_grid.hpp"
#include "fastscapelib/grid/raster_grid.hpp"
#include "fastscapelib/grid/trimesh.hpp"

namespace fs = fastscapelib;

template <class G>
static void
dump(const std::string& dir, const std::string& name, G& grid, unsigned D)
{
    std::string path = dir + "/" + name + ".h";
    FILE* f = fopen(path.c_str(), "w");
    size_t n = grid.size();
    fprintf(f, "/* generated from the real grid class: %s */\n#define T_N %zu\n#define T_D %u\n", name.c_str(), n, D);
    fprintf(f, "static const uint64_t T_cnt[%zu] = {", n);
    for (size_t i = 0; i < n; i++)
        fprintf(f, "%zu,", (size_t) grid.neighbors_count(i));
    fprintf(f, "};\nstatic const uint64_t T_nb[%zu] = {", n * D);
    for (size_t i = 0; i < n; i++)
    {
        auto nb = grid.neighbors(i);
        for (unsigned k = 0; k < D; k++)
            fprintf(f, "%zu,", k < nb.size() ? nb[k].idx : (size_t) 0);
    }
    fprintf(f, "};\nstatic const double T_dist[%zu] = {", n * D);
    for (size_t i = 0; i < n; i++)
    {
        auto nb = grid.neighbors(i);
        for (unsigned k = 0; k < D; k++)
            fprintf(f, "%a,", k < nb.size() ? nb[k].distance : 1.0);
    }
    fprintf(f, "};\nstatic const double T_area[%zu] = {", n);
    for (size_t i = 0; i < n; i++)
        fprintf(f, "%a,", grid.nodes_areas(i));
    fprintf(f, "};\nstatic const uint8_t T_status[%zu] = {", n);
    for (size_t i = 0; i < n; i++)
        fprintf(f, "%u,", (unsigned) grid.nodes_status(i));
    fprintf(f, "};\n");
    fclose(f);
}

template <fs::raster_connect RC>
static void
raster(const std::string& dir, const char* cname, unsigned D)
{
    using G = fs::raster_grid<fs::xt_selector, RC>;
    using st = fs::node_status;
    struct B { const char* n; std::array<st, 4> s; };
    // order: left, right, top, bottom
    B bs[] = { { "fixed", { st::fixed_value, st::fixed_value, st::fixed_value, st::fixed_value } },
               { "hloop", { st::looped, st::looped, st::fixed_value, st::fixed_value } },
               { "vloop", { st::fixed_value, st::core, st::looped, st::looped } },
               { "bloop", { st::looped, st::looped, st::looped, st::looped } } };
    size_t shapes[][2] = { { 2, 2 }, { 2, 3 }, { 3, 2 }, { 3, 3 }, { 2, 4 }, { 3, 4 } };
    for (auto& sh : shapes)
        for (auto& b : bs)
        {
            typename G::shape_type shape{ { sh[0], sh[1] } };
            G g(shape, { 1.0, 2.0 }, fs::raster_boundary_status(b.s));
            char nm[128];
            snprintf(nm, sizeof nm, "raster_%s_%zux%zu_%s", cname, sh[0], sh[1], b.n);
            dump(dir, nm, g, D);
        }
}

int
main(int argc, char** argv)
{
    std::string dir = argv[1];
    for (size_t n = 2; n <= 6; n++)
    {
        fs::profile_grid<> g(n, 2.0, fs::node_status::fixed_value);
        dump(dir, "profile_" + std::to_string(n) + "_fixed", g, 2);
        fs::profile_grid<> gl(n, 0.5, fs::node_status::looped);
        dump(dir, "profile_" + std::to_string(n) + "_looped", gl, 2);
    }
    raster<fs::raster_connect::rook>(dir, "rook", 4);
    raster<fs::raster_connect::queen>(dir, "queen", 8);
    raster<fs::raster_connect::bishop>(dir, "bishop", 4);
    {
        // small triangular meshes (points x,y ; triangles)
        using M = fs::trimesh_xt<fs::xt_selector, 6>;
        {
            // 5 nodes: square with centre (4 triangles, fan)
            xt::xtensor<double, 2> pts{ { 0., 0. }, { 2., 0. }, { 2., 2. }, { 0., 2. }, { 1., 1. } };
            xt::xtensor<size_t, 2> tri{ { 0, 1, 4 }, { 1, 2, 4 }, { 2, 3, 4 }, { 3, 0, 4 } };
            M m(pts, tri);
            dump(dir, "mesh_fan5", m, 6);
        }
        {
            // 6 nodes: strip of 4 triangles with an obtuse one
            xt::xtensor<double, 2> pts{ { 0., 0. }, { 1., 0. }, { 3., 0. }, { 0., 1. }, { 1., 1. }, { 2.5, 0.5 } };
            xt::xtensor<size_t, 2> tri{ { 0, 1, 3 }, { 1, 4, 3 }, { 1, 5, 4 }, { 1, 2, 5 } };
            M m(pts, tri);
            dump(dir, "mesh_strip6", m, 6);
        }
        {
            // 4 nodes: two triangles
            xt::xtensor<double, 2> pts{ { 0., 0. }, { 1., 0. }, { 0., 1. }, { 1., 1.5 } };
            xt::xtensor<size_t, 2> tri{ { 0, 1, 2 }, { 1, 3, 2 } };
            M m(pts, tri);
            dump(dir, "mesh_quad4", m, 6);
        }
    }
    return 0;
}
