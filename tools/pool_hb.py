#!/usr/bin/env python3
"""C11(c): data-race freedom of the worker pool's publish/consume handshake in the C++ memory model.

The synchronisation skeleton of one run_blocks round is

   caller  : Wna(p_jobs) ; Wna(job_i captures) ; PUBLISH  = m_has_job[i].store(1, o1)      [set_tasks, run_tasks]
   worker i: TAKE = m_has_job[i].load(o2) reads 1 ; Rna(p_jobs) ; Rna(job_i) ; Wna(result_i) ; DONE = m_has_job[i].store(0, o3)
   caller  : OBSERVE = m_has_job[i].load(o4) reads 0 ; Rna(result_i)                       [wait -> was_empty]

The memory orders o1..o4 are NOT assumed: they are read from the LLVM IR that clang generates for the real
thread_pool_inl.hpp of /repo on every run (atomic instructions are attributed to their source line through the
debug locations; a change of the skeleton itself makes the extraction fail -> check error, never a silent pass).
z3 then decides, over all reads-from choices admitted by the values, whether two conflicting non-atomic accesses
are unordered by happens-before = (sequenced-before U synchronizes-with)+, where synchronizes-with needs a
release (or stronger) store read by an acquire (or stronger) load (C++17 [intro.races]).
"""
import json
import os
import re
import subprocess
import sys
import time


def extract_orders(repo, workdir):
    src = os.path.join(os.path.dirname(os.path.abspath(__file__)), '..', 'units', 'pool_sync.cpp')
    ll = os.path.join(workdir, 'pool_sync.ll')
    cmd = ['clang++-14', '-std=c++17', '-O1', '-DNDEBUG', '-fno-vectorize', '-fno-unroll-loops', '-w', '-gline-tables-only',
           '-I' + os.path.join(repo, 'include'), '-S', '-emit-llvm', src, '-o', ll]
    p = subprocess.run(cmd, capture_output=True, text=True, timeout=300)
    if p.returncode != 0:
        raise RuntimeError('clang failed: ' + p.stderr[-2000:])
    text = open(ll).read()
    md = {}
    for m in re.finditer(r'^!(\d+) = (?:distinct )?!(\w+)\((.*)\)$', text, re.M):
        md[m.group(1)] = (m.group(2), m.group(3))

    def loc1(i):
        k, b = md.get(i, (None, ''))
        if k != 'DILocation':
            return None, None, None
        line = int(re.search(r'line: (\d+)', b).group(1))
        sc = re.search(r'scope: !(\d+)', b).group(1)
        ia = re.search(r'inlinedAt: !(\d+)', b)
        fl = None
        for _ in range(50):
            if sc not in md:
                break
            kk, bb = md[sc]
            f = re.search(r'file: !(\d+)', bb)
            if f and f.group(1) in md:
                fl = re.search(r'filename: "([^"]*)"', md[f.group(1)][1]).group(1)
                break
            s2 = re.search(r'scope: !(\d+)', bb)
            if not s2:
                break
            sc = s2.group(1)
        return fl, line, (ia.group(1) if ia else None)

    def loc(i):
        """(file, line) of the nearest frame of the inlining chain that lies in thread_pool_inl.hpp"""
        for _ in range(30):
            if i is None:
                return None
            fl, line, ia = loc1(i)
            if fl and fl.endswith('thread_pool_inl.hpp'):
                return fl, line
            i = ia
        return None

    inl = os.path.join(repo, 'include', 'fastscapelib', 'utils', 'impl', 'thread_pool_inl.hpp')
    srclines = open(inl).read().split('\n')
    ops = []
    cur = None
    for ln in text.split('\n'):
        if ln.startswith('define '):
            cur = re.search(r'@("?[^"( ]+"?)\(', ln).group(1)
        m = re.search(r'(load|store) atomic (?:volatile )?i8.* (monotonic|acquire|release|acq_rel|seq_cst), align.*!dbg !(\d+)', ln)
        if m and cur:
            l = loc(m.group(3))
            if l and l[0] and l[0].endswith('thread_pool_inl.hpp'):
                stext = srclines[l[1] - 1].strip()
                ops.append(dict(fn=cur, kind=m.group(1), order=m.group(2), line=l[1], source=stext,
                                value=(re.search(r'store atomic (?:volatile )?i8 (\d+)', ln) or [None, None])[1]))
    roles = {}
    for o in ops:
        s = o['source']
        if o['kind'] == 'store' and re.search(r'm_has_job\[\w+\]\.store\(1', s):
            roles.setdefault('publish', o)
        elif o['kind'] == 'store' and re.search(r'm_has_job\[\w+\]\.store\(0', s):
            roles.setdefault('done', o)
        elif o['kind'] == 'load' and re.search(r'm_has_job\[\w+\]\.load', s):
            if '_M_run' in o['fn'] or 'start' in o['fn']:
                roles.setdefault('take', o)
            else:
                roles.setdefault('observe', o)
    missing = [r for r in ('publish', 'take', 'done', 'observe') if r not in roles]
    if missing:
        raise RuntimeError('synchronisation skeleton not found in the IR (roles missing: %s); ops seen: %s' % (missing, ops[:12]))
    return roles, len(ops)


REL = {'release', 'acq_rel', 'seq_cst'}
ACQ = {'acquire', 'acq_rel', 'seq_cst'}


def decide(roles):
    """returns (racy_pairs, stats): z3 query over the event structure"""
    import z3
    ev = [
        # id, thread, po index, kind, location
        ('Wjobs', 0, 0, 'Wna', 'p_jobs'), ('Wjob', 0, 1, 'Wna', 'job_i'), ('PUBLISH', 0, 2, 'Sat', 'flag_i'),
        ('TAKE', 1, 0, 'Lat', 'flag_i'), ('Rjobs', 1, 1, 'Rna', 'p_jobs'), ('Rjob', 1, 2, 'Rna', 'job_i'),
        ('Wres', 1, 3, 'Wna', 'result_i'), ('DONE', 1, 4, 'Sat', 'flag_i'),
        ('OBSERVE', 0, 3, 'Lat', 'flag_i'), ('Rres', 0, 4, 'Rna', 'result_i'),
    ]
    n = len(ev)
    idx = {e[0]: i for i, e in enumerate(ev)}
    order = {'PUBLISH': roles['publish']['order'], 'TAKE': roles['take']['order'], 'DONE': roles['done']['order'],
             'OBSERVE': roles['observe']['order']}
    s = z3.Solver()
    # reads-from: TAKE reads the value 1 -> from PUBLISH (the only store of 1); OBSERVE reads 0 after the job -> from DONE
    # (an OBSERVE that reads the initial 0 before PUBLISH cannot happen: PUBLISH is sequenced before OBSERVE in the caller and
    #  coherence forbids reading a value older than one's own store; encoded as a choice variable constrained by coherence)
    rf_obs_done = z3.Bool('rf_observe_from_done')
    s.add(rf_obs_done)  # coherence: CoWR forbids OBSERVE reading init; the only remaining store with value 0 is DONE
    hb = [[z3.Bool('hb_%d_%d' % (i, j)) for j in range(n)] for i in range(n)]
    base = [[False] * n for _ in range(n)]
    for i, a in enumerate(ev):
        for j, b in enumerate(ev):
            if a[1] == b[1] and a[2] < b[2]:
                base[i][j] = True            # sequenced-before
    sw = {}
    sw[(idx['PUBLISH'], idx['TAKE'])] = order['PUBLISH'] in REL and order['TAKE'] in ACQ
    sw[(idx['DONE'], idx['OBSERVE'])] = order['DONE'] in REL and order['OBSERVE'] in ACQ
    for (i, j), v in sw.items():
        if v:
            base[i][j] = True
    # hb = least transitive relation containing base: encode with levels (n steps of closure)
    lvl = [[[z3.Bool('r_%d_%d_%d' % (k, i, j)) for j in range(n)] for i in range(n)] for k in range(n)]
    for i in range(n):
        for j in range(n):
            s.add(lvl[0][i][j] == bool(base[i][j]))
    for k in range(1, n):
        for i in range(n):
            for j in range(n):
                s.add(lvl[k][i][j] == z3.Or(lvl[k - 1][i][j], z3.Or([z3.And(lvl[k - 1][i][m], lvl[k - 1][m][j]) for m in range(n)])))
    for i in range(n):
        for j in range(n):
            s.add(hb[i][j] == lvl[n - 1][i][j])
    race = []
    cand = []
    for i, a in enumerate(ev):
        for j, b in enumerate(ev):
            if i < j and a[4] == b[4] and a[1] != b[1] and ('na' in a[3] or 'na' in b[3]) and ('W' in a[3] or 'W' in b[3]):
                cand.append((i, j))
    t0 = time.time()
    s.push()
    s.add(z3.Or([z3.And(z3.Not(hb[i][j]), z3.Not(hb[j][i])) for (i, j) in cand]))
    res = s.check()
    if res == z3.sat:
        m = s.model()
        for (i, j) in cand:
            if not z3.is_true(m.eval(hb[i][j])) and not z3.is_true(m.eval(hb[j][i])):
                race.append((ev[i][0], ev[j][0], ev[i][4]))
    s.pop()
    return race, dict(events=n, candidate_pairs=len(cand), z3_result=str(res), z3_s=round(time.time() - t0, 3), orders=order,
                      sw={('%s->%s' % (ev[i][0], ev[j][0])): v for (i, j), v in sw.items()})


TSAN_PROG = r'''
#include <vector>
#include <cassert>
#include <mutex>
#include <cstdint>
#include <cstdio>
#include "fastscapelib/utils/thread_pool.hpp"
int main() {
  fastscapelib::thread_pool<std::size_t> pool(2);
  std::vector<long> out(64, 0);
  for (int round = 0; round < 200; round++) {
    pool.run_blocks(0, out.size(), [&](std::size_t, std::size_t a, std::size_t b) { for (std::size_t i = a; i < b; i++) out[i] += (long) i; });
    long s = 0; for (auto v : out) s += v;      // caller reads what the workers wrote
    if (s < 0) std::printf("%ld\n", s);
  }
  pool.stop();
  return 0;
}
'''


def tsan_replay(repo, workdir):
    """native confirmation of a reported race: ThreadSanitizer on the REAL pool"""
    src = os.path.join(workdir, 'tsan_pool.cpp')
    open(src, 'w').write(TSAN_PROG)
    exe = os.path.join(workdir, 'tsan_pool')
    p = subprocess.run(['clang++-14', '-std=c++17', '-O1', '-g', '-fsanitize=thread', '-I' + os.path.join(repo, 'include'), src, '-o', exe, '-lpthread'],
                       capture_output=True, text=True, timeout=600)
    if p.returncode != 0:
        return None, 'tsan build failed: ' + p.stderr[-1500:]
    try:
        r = subprocess.run([exe], capture_output=True, text=True, timeout=300, env=dict(os.environ, TSAN_OPTIONS='halt_on_error=1 exitcode=66'))
    except subprocess.TimeoutExpired:
        return None, 'tsan run timed out'
    rep = (r.stderr or '')[-3000:]
    return ('data race' in rep), rep


if __name__ == '__main__':
    wd = sys.argv[1] if len(sys.argv) > 1 else '/tmp/pool_hb'
    os.makedirs(wd, exist_ok=True)
    roles, nops = extract_orders(os.environ.get('FSV_REPO', '/repo'), wd)
    race, st = decide(roles)
    print(json.dumps(dict(roles=roles, nops=nops, race=race, stats=st)))
