#!/bin/bash
# usage: confirm_seed.sh <PROP> <k> <name>   -- re-confirms a seeded change in the scratch worktree /tmp/wt_<PROP>
# and stores it as /verif/seeded/<name>/ (patch.diff, demo.cpp, confirm.log)
set -u
P=$1; K=$2; NAME=$3
WT=/tmp/wt_$P; SD=/tmp/seed_$P; OUT=/verif/seeded/$NAME
mkdir -p $OUT
cp $SD/patch_$K.diff $OUT/patch.diff; cp $SD/demo_$K.cpp $OUT/demo.cpp
LOG=$OUT/confirm.log; : > $LOG
git -C $WT checkout -q -- . ; git -C $WT apply $OUT/patch.diff || { echo "APPLY FAILED" >> $LOG; exit 1; }
[ -d $WT/_build ] || cmake -G Ninja -S $WT -B $WT/_build -DFS_BUILD_TESTS=ON -DCMAKE_BUILD_TYPE=RelWithDebInfo -DGTest_DIR=/root/miniconda/lib/cmake/GTest > /dev/null 2>&1
cmake --build $WT/_build -j6 > $OUT/build.log 2>&1; echo "build_with_change rc=$?" >> $LOG
ctest --test-dir $WT/_build -j6 --timeout 900 2>&1 | tail -3 >> $LOG
g++ -std=c++17 -O1 -w ${DEMOFLAGS:-} -I$WT/include $OUT/demo.cpp -o /tmp/demo_${NAME}_mut -lpthread 2>> $LOG; timeout 120 /tmp/demo_${NAME}_mut > /dev/null 2>&1; echo "demo_with_change rc=$?" >> $LOG
git -C $WT checkout -q -- .
g++ -std=c++17 -O1 -w ${DEMOFLAGS:-} -I$WT/include $OUT/demo.cpp -o /tmp/demo_${NAME}_clean -lpthread 2>> $LOG; timeout 120 /tmp/demo_${NAME}_clean > /dev/null 2>&1; echo "demo_clean rc=$?" >> $LOG
rm -f /tmp/demo_${NAME}_mut /tmp/demo_${NAME}_clean $OUT/build.log
cat $LOG
