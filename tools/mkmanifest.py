#!/usr/bin/env python3
"""regenerate MANIFEST.json checks / not_applicable from tools/manifest_data.py"""
import json, os, sys
HERE = os.path.dirname(os.path.dirname(os.path.abspath(__file__)))
sys.path.insert(0, os.path.join(HERE, 'tools'))
import manifest_data as md
m = json.load(open(os.path.join(HERE, 'MANIFEST.json')))
m['checks'] = []
claimed = []
for pid, c in sorted(md.CHECKS.items()):
    claimed.append(pid)
    m['checks'].append(dict(property_id=pid, quick_cmd='./check %s --tier quick' % pid, thorough_cmd='./check %s --tier thorough' % pid,
                            evidence_file='evidence/%s.json' % pid, replay_cmd_template='./check --replay {path}', engine='fsv',
                            level_claimed=dict(category='model_checking', text=c['text'], design_ref=c.get('ref', 'DESIGN.md section 4 ' + pid)),
                            level_note=c['note'], technique=c['technique']))
m['engines'][0]['serves_properties'] = claimed
props = [json.loads(l)['id'] for l in open(os.path.join(HERE, 'properties.jsonl'))]
m['not_applicable'] = [dict(property_id=p, reason=md.NOT_APPLICABLE.get(p, 'no check built yet in this round (see DESIGN.md); not claimed')) for p in props if p not in claimed]
json.dump(m, open(os.path.join(HERE, 'MANIFEST.json'), 'w'), indent=1)
print('claimed', claimed)
