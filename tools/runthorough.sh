#!/bin/bash
cd /verif
for p in ${THOROUGH_LIST:-C17 C16 C03 C11 C08 C05 C12 C13 C09 C04}; do
  t0=$(date +%s); ./check $p --tier thorough > /tmp/thorough_$p.log 2>&1; rc=$?; t1=$(date +%s)
  echo "$p rc=$rc wall=$((t1-t0))s $(tail -1 /tmp/thorough_$p.log)"
  cp evidence/$p.json /tmp/thorough_evidence_$p.json
done
echo THOROUGH-DONE
