#!/usr/bin/env python3
"""LLVM-14 textual IR (typed pointers) -> C translator (prototype).

Scope: the IR subset clang-14 -O1 produces for C++17 header code compiled with
-fignore-exceptions.  Output is a single C translation unit meant for (a) cbmc
and (b) gcc (native differential run).
"""
import re, sys, struct, math

TOK = re.compile(r'''
    (?P<ws>\s+)
  | (?P<cstr>c"(?:[^"\\]|\\[0-9A-Fa-f]{2}|\\\\)*")
  | (?P<lid>%"(?:[^"\\]|\\.)*"|%[-\w.$]+)
  | (?P<gid>@"(?:[^"\\]|\\.)*"|@[-\w.$]+)
  | (?P<md>![-\w.$]*|!"(?:[^"\\]|\\.)*")
  | (?P<attr>\#\d+)
  | (?P<num>-?0x[KLMHR]?[0-9A-Fa-f]+|-?\d+\.\d*(?:[eE][-+]?\d+)?|-?\d+)
  | (?P<dots>\.\.\.)
  | (?P<word>[A-Za-z_][\w.]*)
  | (?P<str>"(?:[^"\\]|\\.)*")
  | (?P<p>[*()\[\]{}<>,=:])
''', re.X)


def tokenize(s):
    out = []
    pos = 0
    n = len(s)
    while pos < n:
        if s[pos] == ';':
            break
        m = TOK.match(s, pos)
        if not m:
            raise SyntaxError('cannot tokenize at: ' + s[pos:pos + 40])
        pos = m.end()
        k = m.lastgroup
        if k == 'ws':
            continue
        out.append((k, m.group(k)))
    return out


# ----------------------------------------------------------------------------
# types
# ----------------------------------------------------------------------------
class T:
    __slots__ = ('k', 'a', 'b', 'c')

    def __init__(self, k, a=None, b=None, c=None):
        self.k, self.a, self.b, self.c = k, a, b, c

    def key(self):
        k = self.k
        if k in ('void', 'float', 'double', 'label', 'metadata', 'x86_fp80', 'token'):
            return k
        if k == 'int':
            return 'i%d' % self.a
        if k == 'ptr':
            return self.a.key() + '*'
        if k == 'array':
            return '[%d x %s]' % (self.a, self.b.key())
        if k == 'vector':
            return '<%d x %s>' % (self.a, self.b.key())
        if k == 'named':
            return '%' + self.a
        if k == 'struct':
            return ('<{' if self.b else '{') + ','.join(t.key() for t in self.a) + ('}>' if self.b else '}')
        if k == 'func':
            return self.a.key() + '(' + ','.join(t.key() for t in self.b) + (',...' if self.c else '') + ')'
        raise ValueError(k)

    def __repr__(self):
        return self.key()


VOID = T('void')
I1, I8, I32, I64 = T('int', 1), T('int', 8), T('int', 32), T('int', 64)
DOUBLE = T('double')
FLOAT = T('float')


class P:
    """token cursor"""

    def __init__(self, toks):
        self.t = toks
        self.i = 0

    def peek(self, o=0):
        return self.t[self.i + o] if self.i + o < len(self.t) else (None, None)

    def next(self):
        x = self.t[self.i]
        self.i += 1
        return x

    def accept(self, v):
        if self.i < len(self.t) and self.t[self.i][1] == v:
            self.i += 1
            return True
        return False

    def expect(self, v):
        x = self.next()
        if x[1] != v:
            raise SyntaxError('expected %r got %r in %r' % (v, x, self.t[max(0, self.i - 8):self.i + 8]))

    def done(self):
        return self.i >= len(self.t)


def parse_type(p):
    k, v = p.next()
    if k == 'word':
        if v == 'void':
            t = VOID
        elif re.fullmatch(r'i\d+', v):
            t = T('int', int(v[1:]))
        elif v in ('float', 'double', 'label', 'metadata', 'x86_fp80', 'token'):
            t = T(v)
        elif v == 'opaque':
            t = T('opaque')
        else:
            raise SyntaxError('type word ' + v)
    elif k == 'lid':
        t = T('named', unq(v[1:]))
    elif v == '{':
        t = T('struct', parse_type_list(p, '}'), False)
    elif v == '<':
        if p.peek()[1] == '{':
            p.next()
            fl = parse_type_list(p, '}')
            p.expect('>')
            t = T('struct', fl, True)
        else:
            n = int(p.next()[1])
            p.expect('x')
            e = parse_type(p)
            p.expect('>')
            t = T('vector', n, e)
    elif v == '[':
        n = int(p.next()[1])
        p.expect('x')
        e = parse_type(p)
        p.expect(']')
        t = T('array', n, e)
    else:
        raise SyntaxError('type start %r' % v)
    while True:
        k, v = p.peek()
        if v == '*':
            p.next()
            t = T('ptr', t)
        elif v == '(':
            p.next()
            args = []
            va = False
            if not p.accept(')'):
                while True:
                    if p.peek()[0] == 'dots':
                        p.next()
                        va = True
                    else:
                        args.append(parse_type(p))
                        skip_param_attrs(p)
                    if p.accept(')'):
                        break
                    p.expect(',')
            t = T('func', t, args, va)
        elif k == 'word' and v == 'addrspace':
            p.next(); p.expect('('); p.next(); p.expect(')')
        else:
            break
    return t


def parse_type_list(p, close):
    out = []
    if p.accept(close):
        return out
    while True:
        out.append(parse_type(p))
        if p.accept(close):
            return out
        p.expect(',')


def unq(s):
    if s.startswith('"'):
        s = s[1:-1]
        s = re.sub(r'\\([0-9A-Fa-f]{2})', lambda m: chr(int(m.group(1), 16)), s)
    return s


PARAM_ATTRS = {'noundef', 'nonnull', 'nocapture', 'readonly', 'readnone', 'writeonly', 'noalias', 'signext',
               'zeroext', 'returned', 'immarg', 'inreg', 'nest', 'nofree', 'swiftself', 'swifterror', 'inalloca',
               'noreturn', 'nounwind', 'tail', 'musttail', 'notail', 'volatile', 'inbounds', 'nsw', 'nuw', 'exact',
               'fast', 'nnan', 'ninf', 'nsz', 'arcp', 'contract', 'afn', 'reassoc', 'dso_local', 'local_unnamed_addr',
               'unnamed_addr', 'noundef', 'mustprogress', 'inrange', 'dso_preemptable'}
PARAM_ATTRS_ARG = {'align', 'dereferenceable', 'dereferenceable_or_null', 'sret', 'byval', 'byref', 'preallocated',
                   'elementtype', 'alignstack'}


def skip_param_attrs(p):
    while True:
        k, v = p.peek()
        if k == 'word' and v in PARAM_ATTRS_ARG:
            p.next()
            if p.accept('('):
                d = 1
                while d:
                    x = p.next()[1]
                    if x == '(':
                        d += 1
                    elif x == ')':
                        d -= 1
            else:
                p.next()  # align N
        elif k == 'word' and v in PARAM_ATTRS:
            p.next()
        elif k == 'attr':
            p.next()
        else:
            return


# ----------------------------------------------------------------------------
# module
# ----------------------------------------------------------------------------
def cid(name):
    """sanitise an LLVM identifier into a C identifier"""
    s = re.sub(r'[^A-Za-z0-9_]', lambda m: '_%02x' % ord(m.group(0)), name)
    if s[0].isdigit():
        s = '_' + s
    return s


class Module:
    def __init__(self, text, opts=None):
        self.opts = opts or {}
        self.named = {}      # name -> T (struct) or opaque
        self.named_order = []
        self.globals = {}    # name -> dict
        self.gorder = []
        self.funcs = {}      # name -> dict(ret, params, va, body(None|list of lines), attrs)
        self.forder = []
        self.lits = {}       # literal struct key -> cname
        self.lit_order = []
        self.arrs = {}       # array type key -> cname
        self.ftypes = {}
        self.out_types = []  # emission order of composite type definitions
        self.emitted = set()
        self.parse(text)

    # ---- parsing top-level --------------------------------------------------
    def parse(self, text):
        lines = text.split('\n')
        i = 0
        n = len(lines)
        while i < n:
            ln = lines[i]
            if ln.startswith('%') and ' = type ' in ln:
                toks = tokenize(ln)
                p = P(toks)
                name = unq(p.next()[1][1:])
                p.expect('='); p.expect('type')
                t = parse_type(p)
                self.named[name] = t
                self.named_order.append(name)
            elif ln.startswith('@'):
                self.parse_global(ln)
            elif ln.startswith('define '):
                body = []
                hdr = ln
                i += 1
                while lines[i] != '}':
                    body.append(lines[i])
                    i += 1
                self.parse_func_header(hdr, body)
            elif ln.startswith('declare '):
                self.parse_func_header(ln, None)
            i += 1

    LINKAGE = {'private', 'internal', 'available_externally', 'linkonce', 'weak', 'common', 'appending',
               'extern_weak', 'linkonce_odr', 'weak_odr', 'external', 'dso_local', 'dso_preemptable', 'hidden',
               'protected', 'default', 'unnamed_addr', 'local_unnamed_addr', 'thread_local', 'externally_initialized',
               'dllimport', 'dllexport'}

    def parse_global(self, ln):
        toks = tokenize(ln)
        p = P(toks)
        name = unq(p.next()[1][1:])
        p.expect('=')
        g = dict(name=name, ext=False, const=False, init=None, alias=None)
        while p.peek()[0] == 'word' and p.peek()[1] in self.LINKAGE:
            w = p.next()[1]
            if w in ('external', 'extern_weak'):
                g['ext'] = True
            if w == 'thread_local' and p.accept('('):
                p.next(); p.expect(')')
        w = p.next()[1]
        if w == 'alias':
            ty = parse_type(p)
            p.expect(',')
            g['type'] = ty
            g['alias'] = self.parse_typed_const(p)
            self.globals[name] = g
            self.gorder.append(name)
            return
        if w == 'constant':
            g['const'] = True
        elif w != 'global':
            raise SyntaxError('global kind ' + w + ' in ' + ln[:80])
        ty = parse_type(p)
        g['type'] = ty
        if not g['ext'] and not p.done() and p.peek()[1] != ',':
            g['init'] = self.parse_const(p, ty)
        self.globals[name] = g
        self.gorder.append(name)

    def parse_func_header(self, hdr, body):
        toks = tokenize(hdr)
        p = P(toks)
        p.next()  # define/declare
        while True:
            k, v = p.peek()
            if k == 'word' and (v in self.LINKAGE or v in PARAM_ATTRS or v in ('fastcc', 'ccc', 'coldcc')):
                p.next()
            elif k == 'word' and v in PARAM_ATTRS_ARG:
                skip_param_attrs(p)
            else:
                break
        ret = parse_type_noargs(p)
        name = unq(p.next()[1][1:])
        p.expect('(')
        params = []
        va = False
        if not p.accept(')'):
            while True:
                if p.peek()[0] == 'dots':
                    p.next(); va = True
                else:
                    t = parse_type(p)
                    skip_param_attrs(p)
                    pn = None
                    if p.peek()[0] == 'lid':
                        pn = unq(p.next()[1][1:])
                    params.append((t, pn))
                if p.accept(')'):
                    break
                p.expect(',')
        rest = ' '.join(v for k, v in toks[p.i:])
        f = dict(name=name, ret=ret, params=params, va=va, body=body, rest=rest)
        self.funcs[name] = f
        self.forder.append(name)


def parse_type_noargs(p):
    """Parse a return type in a function header: the '(' that follows the name must
    not be consumed as a function type; so parse the type then stop at a gid."""
    # types in return position never contain a '(' directly followed by gid issues because
    # the function name (gid) precedes '('.  parse_type stops at gid since gid is not a suffix.
    return parse_type(p)


# ----------------------------------------------------------------------------
# constants
# ----------------------------------------------------------------------------
class C:
    """constant / operand: kind + payload"""
    __slots__ = ('k', 't', 'v', 'x')

    def __init__(self, k, t, v=None, x=None):
        self.k, self.t, self.v, self.x = k, t, v, x


def _parse_const(self, p, ty):
    k, v = p.peek()
    if k == 'num':
        p.next()
        return C('num', ty, v)
    if k == 'lid':
        p.next()
        return C('local', ty, unq(v[1:]))
    if k == 'gid':
        p.next()
        return C('global', ty, unq(v[1:]))
    if k == 'cstr':
        p.next()
        raw = v[2:-1]
        bs = bytearray()
        j = 0
        while j < len(raw):
            if raw[j] == '\\':
                if raw[j + 1] == '\\':
                    bs.append(92); j += 2
                else:
                    bs.append(int(raw[j + 1:j + 3], 16)); j += 3
            else:
                bs.append(ord(raw[j])); j += 1
        return C('bytes', ty, bytes(bs))
    if k == 'word':
        if v in ('true', 'false'):
            p.next(); return C('num', ty, '1' if v == 'true' else '0')
        if v in ('null', 'zeroinitializer', 'undef', 'poison', 'none'):
            p.next(); return C('zero' if v != 'null' else 'null', ty, v)
        if v in ('getelementptr',):
            p.next()
            inb = p.accept('inbounds')
            p.expect('(')
            sty = parse_type(p)
            p.expect(',')
            ops = []
            while True:
                p.accept('inrange')
                ops.append(self.parse_typed_const(p))
                if p.accept(')'):
                    break
                p.expect(',')
            return C('gep', ty, sty, ops)
        if v in ('bitcast', 'ptrtoint', 'inttoptr', 'trunc', 'zext', 'sext', 'addrspacecast'):
            p.next(); p.expect('(')
            o = self.parse_typed_const(p)
            p.expect('to')
            t2 = parse_type(p)
            p.expect(')')
            return C('cast', t2, v, o)
        if v in ('add', 'sub', 'mul', 'and', 'or', 'xor', 'shl', 'lshr', 'ashr'):
            p.next()
            while p.peek()[1] in ('nsw', 'nuw', 'exact'):
                p.next()
            p.expect('(')
            a = self.parse_typed_const(p); p.expect(',')
            b = self.parse_typed_const(p); p.expect(')')
            return C('binop', ty, v, (a, b))
        if v == 'icmp':
            p.next(); pred = p.next()[1]; p.expect('(')
            a = self.parse_typed_const(p); p.expect(',')
            b = self.parse_typed_const(p); p.expect(')')
            return C('icmp', ty, pred, (a, b))
        if v == 'select':
            p.next(); p.expect('(')
            a = self.parse_typed_const(p); p.expect(',')
            b = self.parse_typed_const(p); p.expect(',')
            c = self.parse_typed_const(p); p.expect(')')
            return C('select', ty, None, (a, b, c))
    if v == '{' or (v == '<' and p.peek(1)[1] == '{'):
        packed = v == '<'
        if packed:
            p.next()
        p.next()
        elems = []
        if not p.accept('}'):
            while True:
                elems.append(self.parse_typed_const(p))
                if p.accept('}'):
                    break
                p.expect(',')
        if packed:
            p.expect('>')
        return C('agg', ty, elems)
    if v == '[':
        p.next()
        elems = []
        if not p.accept(']'):
            while True:
                elems.append(self.parse_typed_const(p))
                if p.accept(']'):
                    break
                p.expect(',')
        return C('agg', ty, elems)
    if v == '<':
        p.next()
        elems = []
        while True:
            elems.append(self.parse_typed_const(p))
            if p.accept('>'):
                break
            p.expect(',')
        return C('agg', ty, elems)
    raise SyntaxError('const at %r' % (p.t[p.i:p.i + 6],))


def _parse_typed_const(self, p):
    t = parse_type(p)
    skip_param_attrs(p)
    return self.parse_const(p, t)


Module.parse_const = _parse_const
Module.parse_typed_const = _parse_typed_const


# ----------------------------------------------------------------------------
# C type emission
# ----------------------------------------------------------------------------
def int_ctype(n):
    if n == 1:
        return 'uint8_t'
    for w in (8, 16, 32, 64):
        if n <= w:
            return 'uint%d_t' % w
    if n <= 128:
        return 'unsigned __int128'
    raise ValueError('int width %d' % n)


def sint_ctype(n):
    for w in (8, 16, 32, 64):
        if n <= w:
            return 'int%d_t' % w
    return '__int128'


class Emit:
    def __init__(self, m):
        self.m = m
        self.typedefs = []   # lines
        self.done = {}
        self.struct_state = {}
        self.fdecl = []

    def resolve(self, t):
        while t.k == 'named' and False:
            t = self.m.named[t.a]
        return t

    # C spelling of a type usable in declarations "<ctype> name"
    def ct(self, t):
        k = t.k
        if k == 'void':
            return 'void'
        if k == 'int':
            return int_ctype(t.a)
        if k == 'double':
            return 'fsv_f64'
        if k == 'float':
            return 'float'
        if k == 'x86_fp80':
            return 'long double'
        if k == 'ptr':
            e = t.a
            if e.k == 'func':
                return self.functypedef(e) + '*'
            if e.k == 'void':
                return 'void*'
            return self.ct(e) + '*'
        if k == 'named':
            return 'struct ' + self.sname(t.a)
        if k == 'struct':
            return 'struct ' + self.litname(t)
        if k == 'array':
            return 'struct ' + self.arrname(t)
        if k == 'vector':
            return 'struct ' + self.arrname(T('array', t.a, t.b))
        if k == 'func':
            return self.functypedef(t)
        if k in ('metadata', 'label', 'token'):
            return 'int'
        if k == 'opaque':
            return 'void'
        raise ValueError(k)

    def sname(self, name):
        return 'S_' + cid(name)

    def litname(self, t):
        key = t.key()
        if key not in self.m.lits:
            self.m.lits[key] = ('L%d' % len(self.m.lits), t)
        return self.m.lits[key][0]

    def arrname(self, t):
        key = t.key()
        if key not in self.m.arrs:
            self.m.arrs[key] = ('A%d' % len(self.m.arrs), t)
        return self.m.arrs[key][0]

    def functypedef(self, t):
        key = t.key()
        if key not in self.m.ftypes:
            name = 'F%d' % len(self.m.ftypes)
            self.m.ftypes[key] = (name, t)
        return self.m.ftypes[key][0]

    # ---- ordered definitions of all composite types -------------------------
    def define_all_types(self):
        """Emit struct definitions in dependency order (by-value containment)."""
        out = []
        state = {}

        def need(t):
            k = t.k
            if k == 'named':
                key = ('n', t.a)
                body = self.m.named.get(t.a)
                if body is None or body.k == 'opaque':
                    return
                if state.get(key) == 2:
                    return
                if state.get(key) == 1:
                    raise ValueError('recursive by-value type ' + t.a)
                state[key] = 1
                for f in body.a:
                    need(f)
                out.append(self.struct_def(self.sname(t.a), body.a, body.b))
                state[key] = 2
            elif k == 'struct':
                key = ('l', t.key())
                if state.get(key):
                    return
                state[key] = 1
                for f in t.a:
                    need(f)
                out.append(self.struct_def(self.litname(t), t.a, t.b))
            elif k in ('array', 'vector'):
                tt = T('array', t.a, t.b)
                key = ('a', tt.key())
                if state.get(key):
                    return
                state[key] = 1
                need(t.b)
                n = t.a
                out.append('struct %s { %s a[%d]; };' % (self.arrname(tt), self.ct(t.b), max(n, 1)))
            elif k == 'ptr':
                # pointer: only a forward declaration is required; make sure nested names exist
                self.ct(t)
            elif k == 'func':
                self.ct(t)

        # iterate to fixpoint since ct() may register new literal/array types
        seen_n = -1
        names = list(self.m.named_order)
        while True:
            for nme in names:
                need(T('named', nme))
            for key, (nm, t) in list(self.m.lits.items()):
                need(t)
            for key, (nm, t) in list(self.m.arrs.items()):
                need(t)
            tot = len(self.m.lits) + len(self.m.arrs) + len(self.m.ftypes)
            if tot == seen_n:
                break
            seen_n = tot
        return out

    def struct_def(self, cname, fields, packed):
        if not fields:
            return 'struct %s { uint8_t _empty[0]; }%s;' % (cname, '')
        fs = ' '.join('%s f%d;' % (self.ct(f), i) for i, f in enumerate(fields))
        return 'struct %s { %s }%s;' % (cname, fs, ' __attribute__((packed))' if packed else '')

    def forward_decls(self):
        out = []
        for nme in self.m.named_order:
            out.append('struct %s;' % self.sname(nme))
        return out

    def func_typedefs(self):
        out = []
        done = set()
        # function typedefs may reference each other through pointers: emit in creation order,
        # repeat until stable because ct() can create new ones while printing
        i = 0
        items = []
        while True:
            cur = list(self.m.ftypes.items())
            if i >= len(cur):
                break
            key, (name, t) = cur[i]
            i += 1
            args = ', '.join(self.ct(a) for a in t.b)
            if t.c:
                args = (args + ', ...') if args else ''
            elif not args:
                args = 'void'
            items.append((name, 'typedef %s %s(%s);' % (self.ct(t.a), name, args), t))
        # order: a typedef using Fk* in its signature needs Fk declared earlier -> simple topological retry
        emitted = set()
        pending = items
        while pending:
            nxt = []
            for name, line, t in pending:
                deps = set(re.findall(r'\bF\d+\b', line)) - {name}
                if deps <= emitted:
                    out.append(line)
                    emitted.add(name)
                else:
                    nxt.append((name, line, t))
            if len(nxt) == len(pending):
                # cycle (function taking pointer to itself): break with void*
                name, line, t = nxt[0]
                line = re.sub(r'\bF\d+\b(?=\*)', lambda m: m.group(0) if m.group(0) in emitted or m.group(0) == name else 'void', line)
                out.append(line)
                emitted.add(name)
                nxt = nxt[1:]
            pending = nxt
        return out


# ----------------------------------------------------------------------------
# size computation (x86-64 data layout)
# ----------------------------------------------------------------------------
def size_align(m, t):
    k = t.k
    if k == 'int':
        n = t.a
        b = 1 if n <= 8 else 2 if n <= 16 else 4 if n <= 32 else 8 if n <= 64 else 16
        return b, b
    if k == 'double':
        return 8, 8
    if k == 'float':
        return 4, 4
    if k == 'x86_fp80':
        return 16, 16
    if k == 'ptr':
        return 8, 8
    if k == 'named':
        return size_align(m, m.named[t.a])
    if k == 'array' or k == 'vector':
        s, a = size_align(m, t.b)
        return s * t.a, a
    if k == 'struct':
        off = 0
        al = 1
        for f in t.a:
            s, a = size_align(m, f)
            if t.b:
                a = 1
            off = (off + a - 1) // a * a
            off += s
            al = max(al, a)
        off = (off + al - 1) // al * al
        return off, al
    raise ValueError('size of ' + t.key())


def type_leaves(m, t, base=0, path=''):
    """scalar leaves of a type: list of (offset, size, path, type)"""
    k = t.k
    if k == 'named':
        return type_leaves(m, m.named[t.a], base, path)
    if k in ('int', 'double', 'float', 'ptr', 'x86_fp80'):
        s, a = size_align(m, t)
        return [(base, s, path, t)]
    if k in ('array', 'vector'):
        s, a = size_align(m, t.b)
        out = []
        for i in range(t.a):
            out.extend(type_leaves(m, t.b, base + i * s, '%s.a[%d]' % (path, i)))
        return out
    if k == 'struct':
        off = 0
        out = []
        for i, f in enumerate(t.a):
            s, a = size_align(m, f)
            if t.b:
                a = 1
            off = (off + a - 1) // a * a
            out.extend(type_leaves(m, f, base + off, '%s.f%d' % (path, i)))
            off += s
        return out
    raise ValueError('leaves of ' + t.key())


def gep_const_offset(m, sty, idx):
    """byte offset of a GEP with all-constant indices (list of ints), and result type"""
    s0, _ = size_align(m, sty)
    off = idx[0] * s0
    cur = sty
    for ix in idx[1:]:
        ct = cur
        while ct.k == 'named':
            ct = m.named[ct.a]
        if ct.k == 'struct':
            o = 0
            for i, f in enumerate(ct.a):
                s, a = size_align(m, f)
                if ct.b:
                    a = 1
                o = (o + a - 1) // a * a
                if i == ix:
                    break
                o += s
            off += o
            cur = ct.a[ix]
        else:
            s, a = size_align(m, ct.b)
            off += ix * s
            cur = ct.b
    return off, cur


# ----------------------------------------------------------------------------
# function body translation
# ----------------------------------------------------------------------------
FCMP = {'oeq': ('==', False), 'ogt': ('>', False), 'oge': ('>=', False), 'olt': ('<', False), 'ole': ('<=', False),
        'one': ('!=', False), 'ueq': ('==', True), 'ugt': ('>', True), 'uge': ('>=', True), 'ult': ('<', True),
        'ule': ('<=', True), 'une': ('!=', True)}
ICMP = {'eq': '==', 'ne': '!=', 'ugt': '>', 'uge': '>=', 'ult': '<', 'ule': '<=', 'sgt': '>', 'sge': '>=',
        'slt': '<', 'sle': '<='}
BINOP = {'add': '+', 'sub': '-', 'mul': '*', 'udiv': '/', 'urem': '%', 'and': '&', 'or': '|', 'xor': '^',
         'shl': '<<', 'lshr': '>>', 'fadd': '+', 'fsub': '-', 'fmul': '*', 'fdiv': '/'}


def hexfloat(v, ty):
    if v.startswith('0x'):
        h = v[2:]
        if h[0] in 'KLMHR':
            raise ValueError('unsupported fp literal ' + v)
        bits = int(h, 16)
        d = struct.unpack('<d', struct.pack('<Q', bits))[0]
    else:
        d = float(v)
    if math.isnan(d):
        return '((fsv_f64)__builtin_nan(""))' if ty.k == 'double' else '__builtin_nanf("")'
    if math.isinf(d):
        s = '((fsv_f64)__builtin_inf())' if ty.k == 'double' else '__builtin_inff()'
        return '(-' + s + ')' if d < 0 else s
    s = d.hex()
    if ty.k == 'float':
        return '(' + s + 'f)'
    return '((fsv_f64)' + s + ')'


class DbgToks(list):
    dbg = None


class FuncTx:
    def __init__(self, m, em, f):
        self.m, self.em, self.f = m, em, f
        self.vt = {}       # local name -> T
        self.lines = []
        self.allocas = []
        self.cur_block = None

    def lname(self, n):
        return 'v_' + cid(n)

    def blabel(self, n):
        return 'bb_' + cid(n)

    def gname(self, n):
        return self.m.csym(n)

    # -------------------------------------------------------------- operands
    def opnd(self, c):
        k = c.k
        t = c.t
        if k == 'local':
            return self.lname(c.v)
        if k == 'num':
            if t.k in ('double', 'float'):
                return hexfloat(c.v, t)
            if t.k == 'int':
                n = int(c.v)
                if n < 0:
                    n += 1 << t.a
                if t.a > 64:
                    return '((unsigned __int128)%dULL)' % n if n < (1 << 64) else '((((unsigned __int128)%dULL)<<64)|%dULL)' % (n >> 64, n & ((1 << 64) - 1))
                return '((%s)%dULL)' % (int_ctype(t.a), n)
            raise ValueError('num of type ' + t.key())
        if k == 'null':
            return '((%s)0)' % self.em.ct(t)
        if k == 'zero':
            if t.k in ('int', 'double', 'float'):
                return '((%s)0)' % self.em.ct(t)
            if t.k == 'ptr':
                return '((%s)0)' % self.em.ct(t)
            return '((%s){0})' % self.em.ct(t)
        if k == 'global':
            g = self.gname(c.v)
            if c.v in self.m.funcs:
                return '((%s)%s)' % (self.em.ct(t), g)
            return '((%s)&%s)' % (self.em.ct(t), g)
        if k == 'cast':
            o = self.opnd(c.x)
            if c.v in ('bitcast', 'inttoptr', 'addrspacecast'):
                return '((%s)%s)' % (self.em.ct(c.t), o)
            if c.v == 'ptrtoint':
                return '((%s)(uintptr_t)%s)' % (self.em.ct(c.t), o)
            if c.v in ('trunc', 'zext'):
                return '((%s)%s)' % (self.em.ct(c.t), o)
            if c.v == 'sext':
                return '((%s)(%s)(%s)%s)' % (self.em.ct(c.t), sint_ctype(c.t.a), sint_ctype(c.x.t.a), o)
        if k == 'gep':
            return self.gep_expr(c.v, c.x, c.t)
        if k == 'binop':
            a, b = c.x
            return '((%s)(%s %s %s))' % (self.em.ct(c.t), self.opnd(a), BINOP[c.v], self.opnd(b))
        if k == 'agg' or k == 'bytes':
            return '((%s)%s)' % (self.em.ct(t), self.m.cinit(c, self))
        raise ValueError('operand kind ' + k)

    def gep_expr(self, sty, ops, rty):
        base = ops[0]
        e = self.opnd(base)
        cur = sty
        idx0 = ops[1]
        if idx0.k == 'num' and int(idx0.v) == 0:
            e = '(*%s)' % e
        else:
            e = '(%s[%s])' % (e, self.sidx(idx0))
        for ix in ops[2:]:
            ct = cur
            while ct.k == 'named':
                ct = self.m.named[ct.a]
            if ct.k == 'struct':
                fi = int(ix.v)
                e = '%s.f%d' % (e, fi)
                cur = ct.a[fi]
            elif ct.k in ('array', 'vector'):
                e = '%s.a[%s]' % (e, self.sidx(ix))
                cur = ct.b
            else:
                raise ValueError('gep into ' + ct.key())
        return '(&%s)' % e

    def sidx(self, c):
        """index operand as signed 64-bit"""
        if c.k == 'num':
            return '%dLL' % int(c.v)
        w = c.t.a
        return '(int64_t)(%s)%s' % (sint_ctype(w), self.opnd(c))

    # ------------------------------------------------------------- statements
    def emit(self, s):
        self.lines.append('  ' + s)

    def set(self, name, ty, expr):
        self.vt[name] = ty
        if ty.k == 'void':
            self.emit(expr + ';')
        else:
            self.emit('%s = %s;' % (self.lname(name), expr))

    def typed(self, p):
        t = parse_type(p)
        skip_param_attrs(p)
        return self.m.parse_const(p, t)

    def translate(self):
        f = self.f
        m = self.m
        # split blocks
        blocks = []
        cur = ('entry_', [])
        first = True
        for ln in f['body']:
            s = ln.strip()
            if not s or s.startswith(';'):
                continue
            mm = re.match(r'^([-\w.$]+|"(?:[^"\\]|\\.)*"):', ln)
            if mm and not ln.startswith(' '):
                if cur[1] or first:
                    blocks.append(cur)
                cur = (unq(mm.group(1)), [])
                first = False
                continue
            if cur[1] and cur[1][-1].startswith('switch ') and not cur[1][-1].rstrip().endswith(']'):
                cur[1][-1] = cur[1][-1] + ' ' + s
                continue
            cur[1].append(s)
        blocks.append(cur)
        if blocks and blocks[0][0] == 'entry_' and not blocks[0][1]:
            blocks = blocks[1:]
        # entry block label: llvm numbers it implicitly; find from preds? we use the first label name
        # compute implicit entry name = number of params (unnamed) -- only matters for phi incoming
        nparams_unnamed = 0
        # pre-scan phis
        self.phis = {}  # block -> list of (name, ty, [(val, pred)])
        parsed = []
        for bname, lns in blocks:
            pl = []
            for s in lns:
                toks = tokenize(s)
                dbg = None
                for ti in range(len(toks) - 1):
                    if toks[ti] == ('md', '!dbg') and toks[ti + 1][0] == 'md':
                        dbg = toks[ti + 1][1][1:]
                toks = strip_md(toks)
                toks = DbgToks(toks)
                toks.dbg = dbg
                pl.append(toks)
                if len(toks) > 3 and toks[1][1] == '=' and toks[2][1] == 'phi':
                    p = P(toks)
                    name = unq(p.next()[1][1:]); p.next(); p.next()
                    while p.peek()[1] in PARAM_ATTRS:
                        p.next()
                    ty = parse_type(p)
                    inc = []
                    while True:
                        p.expect('[')
                        v = m.parse_const(p, ty)
                        p.expect(',')
                        pred = unq(p.next()[1][1:])
                        p.expect(']')
                        inc.append((v, pred))
                        if not p.accept(','):
                            break
                    self.phis.setdefault(bname, []).append((name, ty, inc))
                    self.vt[name] = ty
            parsed.append((bname, pl))
        # pre-pass for typed allocation: i8* local -> first bitcast target pointee; int local -> (op, a, b)
        self.bc_of = {}
        self.bc_src = {}
        self.idef = {}
        for bname, pl in parsed:
            for toks in pl:
                if len(toks) > 6 and toks[1][1] == '=' and toks[2][1] == 'bitcast' and toks[-1][1] == '*' \
                        and toks[-2][1] == 'i8' and toks[-3][1] == 'to' and toks[-4][0] == 'lid':
                    try:
                        pp = P(toks[3:])
                        t1 = parse_type(pp)
                        if t1.k == 'ptr' and t1.a.k not in ('func', 'void', 'opaque') and not (t1.a.k == 'int' and t1.a.a == 8):
                            self.bc_src[unq(toks[0][1][1:])] = t1.a
                    except Exception:
                        pass
                if len(toks) > 4 and toks[1][1] == '=' and toks[2][1] == 'bitcast' and toks[3][1] == 'i8' \
                        and toks[4][1] == '*' and toks[5][0] == 'lid':
                    src = unq(toks[5][1][1:])
                    if src not in self.bc_of:
                        pp = P(toks[7:])
                        try:
                            t2 = parse_type(pp)
                            if t2.k == 'ptr' and t2.a.k not in ('func', 'void', 'opaque'):
                                self.bc_of[src] = t2.a
                        except Exception:
                            pass
                elif len(toks) > 4 and toks[1][1] == '=' and toks[2][1] in ('shl', 'mul'):
                    j = 3
                    while toks[j][1] in ('nsw', 'nuw'):
                        j += 1
                    if toks[j][1] == 'i64' and toks[j + 2][1] == ',' and toks[j + 3][0] == 'num':
                        self.idef[unq(toks[0][1][1:])] = (toks[2][1], toks[j + 1], int(toks[j + 3][1]))
        # pointer provenance: local -> (root local, root pointee type, const byte offset)
        self.prov = {}
        self.prov_cast = set()
        for bname, pl in parsed:
            for toks in pl:
                if len(toks) < 5 or toks[1][1] != '=' or toks[0][0] != 'lid':
                    continue
                d = unq(toks[0][1][1:])
                try:
                    if toks[2][1] in ('call', 'invoke') and d in self.bc_of:
                        names = [v for k, v in toks if k == 'gid']
                        if names and unq(names[0][1:]) in ('_Znwm', '_Znam') and toks[-2][0] == 'num' and toks[-1][1] == ')':
                            et = self.bc_of[d]
                            esz, _ = size_align(m, et)
                            nby = int(toks[-2][1])
                            if esz and nby % esz == 0 and nby // esz <= 64:
                                self.prov[d] = (d, T('array', nby // esz, et), 0)
                                self.prov_cast.add(d)
                        continue
                    if toks[2][1] == 'alloca':
                        pp = P(toks[3:])
                        pp.accept('inalloca')
                        ty = parse_type(pp)
                        if pp.done() or pp.peek()[1] == ',' and pp.peek(1)[1] == 'align':
                            self.prov[d] = (d, ty, 0)
                    elif toks[2][1] == 'bitcast':
                        pp = P(toks[3:])
                        t1 = parse_type(pp)
                        if pp.peek()[0] == 'lid' and t1.k == 'ptr':
                            src = unq(pp.next()[1][1:])
                            if src in self.prov:
                                self.prov[d] = self.prov[src]
                            elif t1.a.k not in ('func', 'void', 'opaque', 'int') or (t1.a.k == 'int' and t1.a.a != 8):
                                self.prov[d] = (src, t1.a, 0)
                    elif toks[2][1] == 'getelementptr':
                        pp = P(toks[3:])
                        pp.accept('inbounds')
                        sty = parse_type(pp)
                        pp.expect(',')
                        parse_type(pp)
                        if pp.peek()[0] != 'lid':
                            continue
                        src = unq(pp.next()[1][1:])
                        idx = []
                        ok = True
                        while pp.accept(','):
                            pp.accept('inrange')
                            parse_type(pp)
                            k, v = pp.next()
                            if k != 'num':
                                ok = False
                                break
                            idx.append(int(v))
                        if not ok:
                            continue
                        off, rt = gep_const_offset(m, sty, idx)
                        if src in self.prov:
                            r, rtyp, o0 = self.prov[src]
                            self.prov[d] = (r, rtyp, o0 + off)
                        elif sty.k not in ('int',) and off >= 0:
                            self.prov[d] = (src, sty, off)
                except Exception:
                    pass
        # ptrtoint-derived integers: local -> (ptr operand token, const offset)
        self.p2i = {}
        for bname, pl in parsed:
            for toks in pl:
                if len(toks) > 6 and toks[1][1] == '=' and toks[0][0] == 'lid':
                    d = unq(toks[0][1][1:])
                    if toks[2][1] == 'ptrtoint' and toks[-1][1] == 'i64' and toks[-3][0] == 'lid':
                        self.p2i[d] = (unq(toks[-3][1][1:]), 0)
                    elif toks[2][1] in ('add', 'sub'):
                        j = 3
                        while toks[j][1] in ('nsw', 'nuw'):
                            j += 1
                        if toks[j][1] == 'i64' and toks[j + 1][0] == 'lid' and toks[j + 3][0] == 'num' \
                                and len(toks) == j + 4:
                            a = unq(toks[j + 1][1][1:])
                            if a in self.p2i:
                                k = int(toks[j + 3][1])
                                pb, c0 = self.p2i[a]
                                self.p2i[d] = (pb, c0 + (k if toks[2][1] == 'add' else -k))
        # implicit entry block name
        self.entry_name = None
        if parsed and parsed[0][0] == 'entry_':
            # unnamed entry: its number = count of unnamed params
            cnt = 0
            for (t, pn) in f['params']:
                if pn is None or re.fullmatch(r'\d+', pn):
                    cnt += 1
            self.entry_name = str(cnt)
            parsed[0] = (self.entry_name, parsed[0][1])
        for bname, pl in parsed:
            self.cur_block = bname
            self.emit_label(bname)
            for toks in pl:
                self.cur_dbg = getattr(toks, 'dbg', None)
                self.instr(toks)
        return self.finish()

    def emit_label(self, b):
        self.lines.append(' %s: ;' % self.blabel(b))

    def goto(self, target):
        """emit phi copies for edge cur_block->target then goto"""
        ph = self.phis.get(target)
        if ph:
            tmp = []
            for (name, ty, inc) in ph:
                val = None
                for v, pred in inc:
                    if pred == self.cur_block:
                        val = v
                        break
                if val is None:
                    raise ValueError('phi %s in %s lacks incoming from %s (func %s)' % (name, target, self.cur_block, self.f['name']))
                tmp.append((name, ty, val))
            if len(tmp) == 1:
                name, ty, val = tmp[0]
                return '{ %s = %s; goto %s; }' % (self.lname(name), self.opnd(val), self.blabel(target))
            s = '{ '
            for i, (name, ty, val) in enumerate(tmp):
                s += '%s t%d_ = %s; ' % (self.em.ct(ty), i, self.opnd(val))
            for i, (name, ty, val) in enumerate(tmp):
                s += '%s = t%d_; ' % (self.lname(name), i)
            return s + 'goto %s; }' % self.blabel(target)
        return 'goto %s;' % self.blabel(target)

    # ------------------------------------------------------------------
    def instr(self, toks):
        p = P(toks)
        dst = None
        if len(toks) > 2 and toks[0][0] == 'lid' and toks[1][1] == '=':
            dst = unq(p.next()[1][1:])
            p.next()
        while p.peek()[1] in ('tail', 'musttail', 'notail'):
            p.next()
        op = p.next()[1]
        m = self.m
        em = self.em
        if op == 'phi':
            return
        if op == 'alloca':
            p.accept('inalloca')
            ty = parse_type(p)
            cnt = None
            if p.accept(','):
                if p.peek()[1] != 'align':
                    cnt = self.typed(p)
            nm = 'a_' + cid(dst)
            if cnt is None:
                self.allocas.append('%s %s;' % (em.ct(ty), nm))
                self.set(dst, T('ptr', ty), '&' + nm)
            elif cnt.k == 'num':
                self.allocas.append('%s %s[%d];' % (em.ct(ty), nm, int(cnt.v)))
                self.set(dst, T('ptr', ty), '&%s[0]' % nm)
            else:
                self.set(dst, T('ptr', ty), '(%s*)__builtin_alloca(sizeof(%s)*%s)' % (em.ct(ty), em.ct(ty), self.opnd(cnt)))
            return
        if op == 'load':
            atomic = p.accept('atomic')
            p.accept('volatile')
            ty = parse_type(p)
            p.expect(',')
            ptr = self.typed(p)
            if atomic:
                self.set(dst, ty, 'FSV_ATOMIC_LOAD(%s, %s)' % (em.ct(ty), self.opnd(ptr)))
            else:
                self.set(dst, ty, '*%s' % self.opnd(ptr))
            return
        if op == 'store':
            atomic = p.accept('atomic')
            p.accept('volatile')
            val = self.typed(p)
            p.expect(',')
            ptr = self.typed(p)
            if atomic:
                self.emit('FSV_ATOMIC_STORE(%s, %s, %s);' % (em.ct(val.t), self.opnd(ptr), self.opnd(val)))
            elif val.k == 'local' and val.v in self.p2i and self.p2i[val.v][1] == 0 and val.t.k == 'int' \
                    and val.t.a == 64:
                # pointer stored as integer (instcombine): keep it a pointer store for the solver's sake
                self.emit('*(uint8_t**)%s = (uint8_t*)%s;' % (self.opnd(ptr), self.lname(self.p2i[val.v][0])))
            else:
                self.emit('*%s = %s;' % (self.opnd(ptr), self.opnd(val)))
            return
        if op == 'getelementptr':
            p.accept('inbounds')
            sty = parse_type(p)
            p.expect(',')
            ops = [self.typed(p)]
            while p.accept(','):
                ops.append(self.typed(p))
            # result type
            cur = sty
            for ix in ops[2:]:
                ct = cur
                while ct.k == 'named':
                    ct = m.named[ct.a]
                if ct.k == 'struct':
                    cur = ct.a[int(ix.v)]
                else:
                    cur = ct.b
            rty = T('ptr', cur)
            self.set(dst, rty, self.gep_expr(sty, ops, rty))
            return
        if op in ('bitcast', 'inttoptr', 'ptrtoint', 'trunc', 'zext', 'sext', 'fptrunc', 'fpext', 'uitofp',
                  'sitofp', 'fptoui', 'fptosi', 'addrspacecast'):
            v = self.typed(p)
            p.expect('to')
            t2 = parse_type(p)
            o = self.opnd(v)
            if op in ('bitcast', 'addrspacecast'):
                if v.t.k == 'ptr' and t2.k == 'ptr':
                    e = '(%s)%s' % (em.ct(t2), o)
                else:
                    e = 'FSV_BITCAST(%s, %s, %s)' % (em.ct(t2), em.ct(v.t), o)
            elif op == 'inttoptr':
                e = '(%s)(uintptr_t)%s' % (em.ct(t2), o)
            elif op == 'ptrtoint':
                e = '(%s)(uintptr_t)%s' % (em.ct(t2), o)
            elif op == 'trunc':
                e = '(%s)%s' % (em.ct(t2), o)
                if t2.a not in (8, 16, 32, 64, 128):
                    e = '(%s)(%s & ((((%s)1)<<%d)-1))' % (em.ct(t2), o, em.ct(v.t), t2.a)
            elif op == 'zext':
                e = '(%s)%s' % (em.ct(t2), o)
            elif op == 'sext':
                if v.t.a == 1:
                    e = '(%s)(%s ? -1 : 0)' % (em.ct(t2), o)
                else:
                    e = '(%s)(%s)(%s)%s' % (em.ct(t2), sint_ctype(t2.a), sint_ctype(v.t.a), o)
            elif op in ('fptrunc', 'fpext'):
                e = '(%s)%s' % (em.ct(t2), o)
            elif op == 'uitofp':
                e = '(%s)%s' % (em.ct(t2), o)
            elif op == 'sitofp':
                e = '(%s)(%s)%s' % (em.ct(t2), sint_ctype(v.t.a), o)
            elif op == 'fptoui':
                e = '(%s)%s' % (em.ct(t2), o)
            elif op == 'fptosi':
                e = '(%s)(%s)%s' % (em.ct(t2), sint_ctype(t2.a), o)
            self.set(dst, t2, e)
            return
        if op in ('add', 'sub', 'mul', 'udiv', 'sdiv', 'urem', 'srem', 'and', 'or', 'xor', 'shl', 'lshr', 'ashr',
                  'fadd', 'fsub', 'fmul', 'fdiv', 'frem'):
            flags = set()
            while p.peek()[0] == 'word' and p.peek()[1] in PARAM_ATTRS:
                flags.add(p.next()[1])
            ty = parse_type(p)
            a = m.parse_const(p, ty)
            p.expect(',')
            b = m.parse_const(p, ty)
            A, B = self.opnd(a), self.opnd(b)
            cty = em.ct(ty)
            if op == 'sub' and a.k == 'local' and b.k == 'local' and a.v in self.p2i and b.v in self.p2i \
                    and not m.opts.get('no_ptrdiff'):
                pa, ca = self.p2i[a.v]
                pb, cb = self.p2i[b.v]
                e = '(uint64_t)(FSV_PTRDIFF((uint8_t*)%s, (uint8_t*)%s) + (%dLL))' % (self.lname(pa), self.lname(pb), ca - cb)
                self.set(dst, ty, e)
                if dst in self.p2i:
                    del self.p2i[dst]
                return
            if op in ('fadd', 'fsub', 'fmul', 'fdiv'):
                e = '%s %s %s' % (A, BINOP[op], B)
            elif op == 'frem':
                e = '(fsv_f64)fmod((double)%s, (double)%s)' % (A, B)
            elif op in ('sdiv', 'srem'):
                st = sint_ctype(ty.a)
                e = '(%s)((%s)%s %s (%s)%s)' % (cty, st, A, '/' if op == 'sdiv' else '%', st, B)
            elif op == 'ashr':
                st = sint_ctype(ty.a)
                e = '(%s)((%s)%s >> %s)' % (cty, st, A, B)
            else:
                if 'nsw' in flags and m.opts.get('check_nsw') and op in ('add', 'sub', 'mul'):
                    self.emit('FSV_CHECK_NSW_%s(%s, %s, %s);' % (op.upper(), sint_ctype(ty.a), A, B))
                e = '(%s)(%s %s %s)' % (cty, A, BINOP[op], B)
                if ty.a == 1 and op in ('add', 'sub', 'xor'):
                    e = '(%s)((%s ^ %s) & 1)' % (cty, A, B)
                elif ty.a not in (1, 8, 16, 32, 64, 128):
                    e = '(%s)((%s) & ((((%s)1)<<%d)-1))' % (cty, e, cty, ty.a)
            self.set(dst, ty, e)
            return
        if op == 'fneg':
            while p.peek()[0] == 'word' and p.peek()[1] in PARAM_ATTRS:
                p.next()
            v = self.typed(p)
            self.set(dst, v.t, '-%s' % self.opnd(v))
            return
        if op == 'icmp':
            pred = p.next()[1]
            ty = parse_type(p)
            a = m.parse_const(p, ty); p.expect(',')
            b = m.parse_const(p, ty)
            A, B = self.opnd(a), self.opnd(b)
            if pred[0] == 's':
                st = sint_ctype(ty.a) if ty.k == 'int' else 'intptr_t'
                e = '((%s)%s %s (%s)%s)' % (st, A, ICMP[pred], st, B)
            elif ty.k == 'ptr' and pred not in ('eq', 'ne'):
                e = '((uintptr_t)%s %s (uintptr_t)%s)' % (A, ICMP[pred], B)
            else:
                e = '(%s %s %s)' % (A, ICMP[pred], B)
            self.set(dst, I1, e)
            return
        if op == 'fcmp':
            while p.peek()[0] == 'word' and p.peek()[1] in PARAM_ATTRS:
                p.next()
            pred = p.next()[1]
            ty = parse_type(p)
            a = m.parse_const(p, ty); p.expect(',')
            b = m.parse_const(p, ty)
            A, B = self.opnd(a), self.opnd(b)
            if pred == 'ord':
                e = '(!FSV_ISNAN(%s) && !FSV_ISNAN(%s))' % (A, B)
            elif pred == 'uno':
                e = '(FSV_ISNAN(%s) || FSV_ISNAN(%s))' % (A, B)
            elif pred == 'true':
                e = '1'
            elif pred == 'false':
                e = '0'
            else:
                o, un = FCMP[pred]
                if un:
                    e = '(FSV_ISNAN(%s) || FSV_ISNAN(%s) || %s %s %s)' % (A, B, A, o, B) if o != '!=' else '(%s != %s)' % (A, B)
                else:
                    e = '(%s %s %s)' % (A, o, B) if o != '!=' else '(!FSV_ISNAN(%s) && !FSV_ISNAN(%s) && %s != %s)' % (A, B, A, B)
            self.set(dst, I1, e)
            return
        if op == 'select':
            while p.peek()[0] == 'word' and p.peek()[1] in PARAM_ATTRS:
                p.next()
            c = self.typed(p); p.expect(',')
            a = self.typed(p); p.expect(',')
            b = self.typed(p)
            self.set(dst, a.t, '(%s ? %s : %s)' % (self.opnd(c), self.opnd(a), self.opnd(b)))
            return
        if op == 'br':
            mark = (' /*@D%s*/' % self.cur_dbg) if getattr(self, 'cur_dbg', None) else ''
            if p.peek()[1] == 'label':
                p.next()
                self.emit(self.goto(unq(p.next()[1][1:])) + mark)
            else:
                c = self.typed(p)
                p.expect(','); p.expect('label'); t1 = unq(p.next()[1][1:])
                p.expect(','); p.expect('label'); t2 = unq(p.next()[1][1:])
                self.emit('if (%s) %s else %s' % (self.opnd(c), self.goto(t1), self.goto(t2)) + mark)
            return
        if op == 'switch':
            v = self.typed(p)
            p.expect(','); p.expect('label'); dflt = unq(p.next()[1][1:])
            p.expect('[')
            cases = []
            while not p.accept(']'):
                cv = self.typed(p)
                p.expect(','); p.expect('label')
                cases.append((cv, unq(p.next()[1][1:])))
            s = 'switch (%s) {' % self.opnd(v)
            for cv, tg in cases:
                s += ' case %s: %s' % (self.opnd(cv), self.goto(tg))
            s += ' default: %s }' % self.goto(dflt)
            self.emit(s)
            return
        if op == 'ret':
            if p.peek()[1] == 'void':
                self.emit('return;')
            else:
                v = self.typed(p)
                self.emit('return %s;' % self.opnd(v))
            return
        if op == 'unreachable':
            self.emit('FSV_UNREACHABLE();')
            return
        if op == 'resume':
            self.emit('FSV_UNREACHABLE();')
            return
        if op in ('call', 'invoke'):
            return self.call(p, dst, op)
        if op == 'extractvalue':
            v = self.typed(p)
            e = self.opnd(v)
            cur = v.t
            while p.accept(','):
                ix = int(p.next()[1])
                ct = cur
                while ct.k == 'named':
                    ct = m.named[ct.a]
                if ct.k == 'struct':
                    e += '.f%d' % ix
                    cur = ct.a[ix]
                else:
                    e += '.a[%d]' % ix
                    cur = ct.b
            self.set(dst, cur, e)
            return
        if op == 'insertvalue':
            agg = self.typed(p); p.expect(',')
            val = self.typed(p)
            path = ''
            cur = agg.t
            while p.accept(','):
                ix = int(p.next()[1])
                ct = cur
                while ct.k == 'named':
                    ct = m.named[ct.a]
                if ct.k == 'struct':
                    path += '.f%d' % ix
                    cur = ct.a[ix]
                else:
                    path += '.a[%d]' % ix
                    cur = ct.b
            self.vt[dst] = agg.t
            if agg.k == 'zero':
                self.emit('memset(&%s, 0, sizeof(%s));' % (self.lname(dst), self.lname(dst)))
            else:
                self.emit('%s = %s;' % (self.lname(dst), self.opnd(agg)))
            self.emit('%s%s = %s;' % (self.lname(dst), path, self.opnd(val)))
            return
        if op == 'atomicrmw':
            p.accept('volatile')
            rop = p.next()[1]
            ptr = self.typed(p); p.expect(',')
            val = self.typed(p)
            self.set(dst, val.t, 'FSV_ATOMIC_RMW_%s(%s, %s, %s)' % (rop.upper(), em.ct(val.t), self.opnd(ptr), self.opnd(val)))
            return
        if op == 'cmpxchg':
            p.accept('weak'); p.accept('volatile')
            ptr = self.typed(p); p.expect(',')
            cmp_ = self.typed(p); p.expect(',')
            new = self.typed(p)
            rt = T('struct', [cmp_.t, I1], False)
            self.vt[dst] = rt
            self.emit('FSV_CMPXCHG(%s, %s, %s, %s, %s);' % (self.lname(dst), em.ct(cmp_.t), self.opnd(ptr), self.opnd(cmp_), self.opnd(new)))
            return
        if op == 'fence':
            self.emit('FSV_FENCE();')
            return
        if op == 'freeze':
            v = self.typed(p)
            self.set(dst, v.t, self.opnd(v))
            return
        if op == 'landingpad':
            ty = parse_type(p)
            self.vt[dst] = ty
            self.emit('FSV_UNREACHABLE();')
            return
        if op == 'va_arg':
            raise ValueError('va_arg')
        raise ValueError('unhandled instruction: ' + ' '.join(v for k, v in toks)[:200])

    # ------------------------------------------------------------------
    def call(self, p, dst, op):
        m, em = self.m, self.em
        while True:
            k, v = p.peek()
            if k == 'word' and (v in PARAM_ATTRS or v in ('fastcc', 'ccc', 'coldcc')):
                p.next()
            elif k == 'word' and v in PARAM_ATTRS_ARG:
                skip_param_attrs(p)
            else:
                break
        rty = parse_type(p)
        # rty may be a full function type (varargs) "i32 (i8*, ...)"; then callee follows
        fty = None
        if rty.k == 'func':
            fty = rty
            rty = fty.a
        k, v = p.next()
        if k == 'gid':
            callee = ('g', unq(v[1:]))
        elif k == 'lid':
            callee = ('l', unq(v[1:]))
        elif k == 'word' and v in ('bitcast',):
            p.i -= 1
            callee = ('c', m.parse_const(p, T('ptr', I8)))
        elif k == 'word' and v == 'asm':
            # inline asm: swallow; treat as no-op
            self.emit('/* inline asm ignored */')
            if dst:
                self.vt[dst] = rty
            return
        else:
            raise SyntaxError('callee %r' % v)
        p.expect('(')
        args = []
        if not p.accept(')'):
            while True:
                t = parse_type(p)
                skip_param_attrs(p)
                if t.k == 'metadata':
                    # metadata argument: skip tokens up to , or )
                    while p.peek()[1] not in (',', ')'):
                        p.next()
                    args.append(None)
                else:
                    args.append(m.parse_const(p, t))
                if p.accept(')'):
                    break
                p.expect(',')
        normal = None
        if op == 'invoke':
            # 'to label %x unwind label %y'
            while p.peek()[1] != 'to':
                p.next()
            p.next(); p.expect('label'); normal = unq(p.next()[1][1:])
        if callee[0] == 'g':
            name = callee[1]
            r = self.intrinsic(name, args, rty, dst)
            if r is not None:
                if normal:
                    self.emit(self.goto(normal))
                return
            if name in ('_Znwm', '_Znam') and dst is not None and dst in self.bc_of and not m.opts.get('untyped_new'):
                et = self.bc_of[dst]
                try:
                    esz, _ = size_align(m, et)
                except Exception:
                    esz = 0
                szc = args[0]
                cnt = None
                if esz:
                    if szc.k == 'num' and int(szc.v) % esz == 0:
                        cnt = '%dULL' % (int(szc.v) // esz)
                    elif szc.k == 'local' and szc.v in self.idef:
                        o, a, k = self.idef[szc.v]
                        fac = (1 << k) if o == 'shl' else k
                        if fac == esz:
                            cnt = self.lname(unq(a[1][1:])) if a[0] == 'lid' else '%dULL' % int(a[1])
                if cnt is not None:
                    self.set(dst, rty, '(uint8_t*)FSV_NEW(%s, %s)' % (em.ct(et), cnt))
                    if normal:
                        self.emit(self.goto(normal))
                    return
            m.used_funcs.add(name)
            fdef = m.funcs.get(name)
            argty = [a.t for a in args]
            if fdef is None:
                raise ValueError('call to undeclared ' + name)
            # cast args to declared param types if they differ
            aexp = []
            for i, a in enumerate(args):
                e = self.opnd(a)
                if i < len(fdef['params']) and fdef['params'][i][0].key() != a.t.key():
                    e = '(%s)%s' % (em.ct(fdef['params'][i][0]), e)
                aexp.append(e)
            e = '%s(%s)' % (self.gname(name), ', '.join(aexp))
            if fdef['ret'].key() != rty.key() and rty.k != 'void':
                e = '(%s)%s' % (em.ct(rty), e)
        else:
            if callee[0] == 'l':
                fe = self.lname(callee[1])
                fpt = self.vt.get(callee[1])
            else:
                fe = self.opnd(callee[1])
                fpt = None
            if fty is None:
                fty = T('func', rty, [a.t for a in args], False)
            e = '((%s*)%s)(%s)' % (em.functypedef(fty), fe, ', '.join(self.opnd(a) for a in args))
        if dst is not None and rty.k != 'void':
            self.set(dst, rty, e)
        else:
            self.emit(e + ';')
        if normal:
            self.emit(self.goto(normal))

    def intrinsic(self, name, args, rty, dst):
        em = self.em
        A = lambda i: self.opnd(args[i])
        if name.startswith('llvm.lifetime.') or name.startswith('llvm.experimental.noalias') \
                or name.startswith('llvm.dbg.') or name in ('llvm.assume', 'llvm.donothing') \
                or name.startswith('llvm.invariant.') or name.startswith('llvm.prefetch'):
            self.emit('/* %s */;' % name)
            return True
        if name.startswith('llvm.memcpy.') or name.startswith('llvm.memmove.'):
            if self.typed_copy(args):
                return True
            ta = self.elem_type(args[0])
            tb = self.elem_type(args[1])
            if ta is None:
                ta = tb
            if tb is None:
                tb = ta
            if ta is not None and tb is not None and ta.key() == tb.key() and not self.m.opts.get('no_typed_mem'):
                try:
                    esz, _ = size_align(self.m, ta)
                except Exception:
                    esz = 0
                if esz:
                    self.emit('FSV_TYPED_MOVE(%s, %s, %s, %s);' % (em.ct(ta), A(0), A(1), A(2)))
                    return True
            fn = 'memcpy' if name.startswith('llvm.memcpy.') else 'memmove'
            self.emit('%s(%s, %s, %s);' % (fn, A(0), A(1), A(2))); return True
        if name.startswith('llvm.memset.'):
            if self.typed_set(args):
                return True
            ta = self.elem_type(args[0])
            if ta is not None and args[1].k == 'num' and not self.m.opts.get('no_typed_mem') and \
                    ((ta.k in ('double', 'ptr') and int(args[1].v) == 0) or (ta.k == 'int' and ta.a in (16, 32, 64))):
                b = int(args[1].v) & 255
                pat = 0
                if ta.k == 'int':
                    for _ in range(ta.a // 8):
                        pat = (pat << 8) | b
                self.emit('FSV_TYPED_SET(%s, %s, %s, %dULL);' % (em.ct(ta), A(0), A(2), pat))
                return True
            self.emit('memset(%s, %s, %s);' % (A(0), A(1), A(2))); return True
        if name == 'llvm.trap':
            self.emit('FSV_TRAP();'); return True
        mm = re.match(r'llvm\.(umax|umin|smax|smin)\.i(\d+)$', name)
        if mm:
            o, w = mm.group(1), int(mm.group(2))
            ct = int_ctype(w) if o[0] == 'u' else sint_ctype(w)
            cmp_ = '>' if o.endswith('max') else '<'
            self.set(dst, rty, '(%s)(((%s)%s %s (%s)%s) ? %s : %s)' % (em.ct(rty), ct, A(0), cmp_, ct, A(1), A(0), A(1)))
            return True
        mm = re.match(r'llvm\.(fabs|sqrt|floor|ceil|trunc|rint|nearbyint|round|exp|exp2|log|log2|log10|sin|cos)\.f(32|64)$', name)
        if mm:
            fn = mm.group(1) + ('f' if mm.group(2) == '32' else '')
            if mm.group(2) == '64':
                self.set(dst, rty, '(fsv_f64)%s((double)%s)' % (fn, A(0))); return True
            self.set(dst, rty, '%s(%s)' % (fn, A(0))); return True
        mm = re.match(r'llvm\.(pow|minnum|maxnum|copysign|fmod)\.f(32|64)$', name)
        if mm:
            fn = {'minnum': 'fmin', 'maxnum': 'fmax'}.get(mm.group(1), mm.group(1)) + ('f' if mm.group(2) == '32' else '')
            if mm.group(2) == '64' and mm.group(1) == 'pow':
                self.m.need_pow = True
                self.set(dst, rty, 'fsvx_pow(%s, %s)' % (A(0), A(1))); return True
            if mm.group(2) == '64':
                self.set(dst, rty, '(fsv_f64)%s((double)%s, (double)%s)' % (fn, A(0), A(1))); return True
            self.set(dst, rty, '%s(%s, %s)' % (fn, A(0), A(1))); return True
        if re.match(r'llvm\.fmuladd\.f(32|64)$', name):
            self.set(dst, rty, '(%s * %s + %s)' % (A(0), A(1), A(2))); return True
        mm = re.match(r'llvm\.(u|s)(add|sub|mul)\.with\.overflow\.i(\d+)$', name)
        if mm:
            self.vt[dst] = rty
            sg, o, w = mm.groups()
            ct = int_ctype(int(w)) if sg == 'u' else sint_ctype(int(w))
            self.emit('{ %s r_; %s.f1 = __builtin_%s_overflow((%s)%s, (%s)%s, &r_); %s.f0 = (%s)r_; }' % (
                ct, self.lname(dst), o, ct, A(0), ct, A(1), self.lname(dst), int_ctype(int(w))))
            return True
        mm = re.match(r'llvm\.(ctlz|cttz|ctpop)\.i(\d+)$', name)
        if mm:
            self.set(dst, rty, 'FSV_%s%s(%s)' % (mm.group(1).upper(), mm.group(2), A(0))); return True
        mm = re.match(r'llvm\.(bswap)\.i(\d+)$', name)
        if mm:
            self.set(dst, rty, '__builtin_bswap%s(%s)' % (mm.group(2), A(0))); return True
        if name.startswith('llvm.expect.'):
            self.set(dst, rty, A(0)); return True
        mm = re.match(r'llvm\.abs\.i(\d+)$', name)
        if mm:
            st = sint_ctype(int(mm.group(1)))
            self.set(dst, rty, '(%s)(((%s)%s < 0) ? -(%s)%s : (%s)%s)' % (em.ct(rty), st, A(0), st, A(0), st, A(0))); return True
        if name.startswith('llvm.'):
            raise ValueError('unhandled intrinsic ' + name)
        return None

    def elem_type(self, c):
        if c.k != 'local':
            return None
        t = self.bc_src.get(c.v)
        if t is None:
            t = self.bc_of.get(c.v)
        if t is not None and t.k == 'int' and t.a == 8:
            return None
        return t

    def _range_leaves(self, c, n):
        """leaves (relative offset, size, lvalue, type) covering exactly [0,n) from pointer operand c"""
        if c.k != 'local' or c.v not in self.prov or self.m.opts.get('no_typed_mem'):
            return None
        r, rt, off = self.prov[c.v]
        try:
            tot, _ = size_align(self.m, rt)
            lv = type_leaves(self.m, rt)
        except Exception:
            return None
        if off < 0 or off + n > tot:
            return None
        out = []
        for (o, sz, path, t) in lv:
            if o + sz <= off or o >= off + n:
                continue
            if o < off or o + sz > off + n:
                return None
            if r in self.prov_cast:
                out.append((o - off, sz, '(*(%s*)%s)%s' % (self.em.ct(rt), self.lname(r), path), t))
            else:
                out.append((o - off, sz, '(*%s)%s' % (self.lname(r), path), t))
        # leaves must tile the range except for padding: require coverage of all non-padding bytes only
        return out

    def typed_set(self, args):
        if args[2].k != 'num' or args[1].k != 'num':
            return False
        n = int(args[2].v)
        b = int(args[1].v) & 255
        if n > 4096:
            return False
        lv = self._range_leaves(args[0], n)
        if not lv:
            return False
        if b != 0 and any(t.k != 'int' for (o, sz, e, t) in lv):
            return False
        for (o, sz, e, t) in lv:
            pat = 0
            for _ in range(sz):
                pat = (pat << 8) | b
            self.emit('%s = %dULL;' % (e, pat))
        return True

    def typed_copy(self, args):
        if args[2].k != 'num':
            return False
        n = int(args[2].v)
        if n > 4096:
            return False
        d = self._range_leaves(args[0], n)
        if not d:
            return False
        sl = self._range_leaves(args[1], n)
        if sl is None and args[1].k in ('cast', 'global', 'gep'):
            # constant global source
            c = args[1]
            off = 0
            while c.k == 'cast':
                c = c.x
            if c.k == 'gep' and c.x[0].k == 'global' and all(i.k == 'num' for i in c.x[1:]):
                try:
                    off, _ = gep_const_offset(self.m, c.v, [int(i.v) for i in c.x[1:]])
                except Exception:
                    return False
                c = c.x[0]
            if c.k == 'global' and c.v in self.m.globals:
                g = self.m.globals[c.v]
                try:
                    lv = type_leaves(self.m, g['type'])
                except Exception:
                    return False
                sl = [(o - off, sz, '%s%s' % (self.gname(c.v), p), t) for (o, sz, p, t) in lv
                      if off <= o and o + sz <= off + n]
        if not sl:
            return False
        smap = {(o, sz): (e, t) for (o, sz, e, t) in sl}
        stm = []
        for (o, sz, e, t) in d:
            if (o, sz) not in smap:
                return False
            se, st = smap[(o, sz)]
            if st.key() == t.key():
                stm.append('%s = %s;' % (e, se))
            elif st.k == 'ptr' and t.k == 'ptr':
                stm.append('%s = (%s)%s;' % (e, self.em.ct(t), se))
            elif st.k == 'int' and t.k == 'int':
                stm.append('%s = %s;' % (e, se))
            else:
                return False
        if len(d) != len(sl):
            return False
        # copy through temporaries is unnecessary: memcpy operands do not overlap; memmove may -> keep order safe
        for x in stm:
            self.emit(x)
        return True

    def finish(self):
        f = self.f
        em = self.em
        params = []
        for i, (t, pn) in enumerate(f['params']):
            if pn is None:
                pn = str(i)
            params.append('%s %s' % (em.ct(t), self.lname(pn)))
        if f['va']:
            params.append('...')
        hdr = '%s %s(%s)' % (em.ct(f['ret']), self.m.csym(f['name']), ', '.join(params) or 'void')
        decls = []
        pnames = set((pn if pn is not None else str(i)) for i, (t, pn) in enumerate(f['params']))
        for n, t in self.vt.items():
            if n in pnames or t.k == 'void':
                continue
            decls.append('  %s %s;' % (em.ct(t), self.lname(n)))
        body = ['  ' + a for a in self.allocas] + decls + self.lines
        return hdr, body


def strip_md(toks):
    """remove trailing ', !md !N' groups and attribute group refs"""
    out = []
    i = 0
    n = len(toks)
    while i < n:
        k, v = toks[i]
        if k == 'p' and v == ',' and i + 1 < n and toks[i + 1][0] == 'md':
            # drop rest (metadata attachments are always trailing)
            # but metadata call args look like 'metadata !5' (no preceding comma+md directly)
            j = i + 1
            ok = True
            while j < n:
                if toks[j][0] not in ('md',) and not (toks[j][0] == 'p' and toks[j][1] == ','):
                    ok = False
                    break
                j += 1
            if ok:
                break
        if k == 'attr':
            i += 1
            continue
        out.append((k, v))
        i += 1
    return out


# ----------------------------------------------------------------------------
# module-level emission
# ----------------------------------------------------------------------------
LIBC = {'strlen', 'strcmp', 'bcmp', 'memcmp', 'memchr', 'strncmp', 'sqrt', 'pow', 'nextafter', 'fabs', 'exp', 'log',
        'malloc', 'free', 'calloc', 'realloc', 'abort', 'exit', 'fmod', 'floor', 'ceil', 'sqrtf', 'powf', 'printf',
        'puts', 'putchar', 'memcpy', 'memmove', 'memset', 'log2', 'log10', 'exp2', 'ldexp', 'frexp', 'round',
        'nextafterf', 'hypot', 'fmin', 'fmax', 'trunc', 'rint', 'nearbyint', 'copysign', 'sched_yield'}


def _csym(self, name):
    if name in self.rename:
        return self.rename[name]
    if name in LIBC or name.startswith('pthread_'):
        return 'fsvx_' + name
    return cid(name)


def _cinit(self, c, ftx):
    """C initialiser (brace form) for a constant of aggregate/scalar type"""
    t = c.t
    k = c.k
    if k == 'zero':
        if t.k in ('int', 'double', 'float', 'ptr'):
            return '0'
        return '{0}'
    if k == 'bytes':
        return '{{' + ','.join(str(b) for b in c.v) + '}}'
    if k == 'agg':
        tt = t
        while tt.k == 'named':
            tt = self.named[tt.a]
        inner = ', '.join(self.cinit(e, ftx) for e in c.v)
        if tt.k in ('array', 'vector'):
            return '{{' + inner + '}}'
        return '{' + inner + '}'
    return ftx.opnd(c)


Module.csym = _csym
Module.cinit = _cinit

PRELUDE = r'''
#include <stdint.h>
#include <stddef.h>
#include <string.h>
#include <stdlib.h>
#include <math.h>
#ifndef FSV_PRELUDE
#define FSV_PRELUDE
/* binary64 by default; FSV_FP_REDUCED: IEEE-style arithmetic with an 11-bit significand in a 64-bit container
   (1 sign, 53 exponent, 10 fraction bits) -- same size and alignment as double, so the memory layout is unchanged */
#if defined(__CPROVER__) && defined(FSV_FP_REDUCED)
typedef __CPROVER_floatbv[64][10] fsv_f64;
#else
typedef double fsv_f64;
#endif
#ifdef __CPROVER__
#define FSV_UNREACHABLE() __CPROVER_assume(0)
#define FSV_TRAP() do { __CPROVER_assert(0, "llvm.trap reached"); __CPROVER_assume(0); } while (0)
#define FSV_ISNAN(x) ((x) != (x))
#else
#define FSV_UNREACHABLE() __builtin_unreachable()
#define FSV_TRAP() __builtin_trap()
#define FSV_ISNAN(x) __builtin_isnan(x)
#endif
#ifdef __CPROVER__
#define FSV_NEW(T, n) ({ T* p_ = (T*)malloc(sizeof(T) * (n)); __CPROVER_assume(p_ != 0); p_; })
#else
#define FSV_NEW(T, n) ((T*)malloc(sizeof(T) * (n)))
#endif
#ifdef __CPROVER__
#define FSV_FWD_OK(d, s) (__CPROVER_POINTER_OBJECT(d) != __CPROVER_POINTER_OBJECT(s) || (d) <= (s))
#else
#define FSV_FWD_OK(d, s) ((uintptr_t)(d) <= (uintptr_t)(s))
#endif
/* memmove/memcpy between arrays of a known element type: element-wise copy keeps cbmc's objects typed */
#define FSV_TYPED_MOVE(T, d, s, n) do { T* d_ = (T*)(d); T* s_ = (T*)(s); uint64_t n_ = (n); \
    if (n_ % sizeof(T)) memmove(d_, s_, n_); \
    else if (FSV_FWD_OK(d_, s_)) { for (uint64_t k_ = 0; k_ < n_ / sizeof(T); k_++) d_[k_] = s_[k_]; } \
    else { for (uint64_t k_ = n_ / sizeof(T); k_-- > 0;) d_[k_] = s_[k_]; } } while (0)
#define FSV_TYPED_SET(T, d, n, pat) do { T* d_ = (T*)(d); uint64_t n_ = (n); \
    if (n_ % sizeof(T)) memset(d_, (int)((pat) & 255), n_); else for (uint64_t k_ = 0; k_ < n_ / sizeof(T); k_++) d_[k_] = (T)(pat); } while (0)
#ifdef __CPROVER__
#define FSV_PTRDIFF(a, b) ((__CPROVER_POINTER_OBJECT(a) == __CPROVER_POINTER_OBJECT(b)) ? ((int64_t)__CPROVER_POINTER_OFFSET(a) - (int64_t)__CPROVER_POINTER_OFFSET(b)) : (int64_t)((uintptr_t)(a) - (uintptr_t)(b)))
#else
#define FSV_PTRDIFF(a, b) ((int64_t)((uintptr_t)(a) - (uintptr_t)(b)))
#endif
#define FSV_BITCAST(T2, T1, v) (((union { T1 a_; T2 b_; }){ .a_ = (v) }).b_)
#ifndef FSV_CONCURRENT
#define FSV_ATOMIC_LOAD(T, p) (*(p))
#define FSV_ATOMIC_STORE(T, p, v) (*(p) = (v))
#define FSV_ATOMIC_RMW_ADD(T, p, v) ({ T o_ = *(p); *(p) = (T)(o_ + (v)); o_; })
#define FSV_ATOMIC_RMW_SUB(T, p, v) ({ T o_ = *(p); *(p) = (T)(o_ - (v)); o_; })
#define FSV_ATOMIC_RMW_XCHG(T, p, v) ({ T o_ = *(p); *(p) = (v); o_; })
#define FSV_ATOMIC_RMW_AND(T, p, v) ({ T o_ = *(p); *(p) = (T)(o_ & (v)); o_; })
#define FSV_ATOMIC_RMW_OR(T, p, v) ({ T o_ = *(p); *(p) = (T)(o_ | (v)); o_; })
#define FSV_CMPXCHG(dst, T, p, c, n) do { T o_ = *(p); (dst).f0 = o_; (dst).f1 = (o_ == (c)); if (o_ == (c)) *(p) = (n); } while (0)
#define FSV_FENCE() ((void)0)
#endif
#endif
'''


def emit_module(m, roots, out):
    em = Emit(m)
    m.rename = {}
    m.used_funcs = set()
    # reachability from roots over function bodies (by textual mention)
    reach = set()
    work = list(roots)
    gre = re.compile(r'@("(?:[^"\\]|\\.)*"|[-\w.$]+)')
    gl_reach = set()
    while work:
        n = work.pop()
        if n in reach or n in gl_reach:
            continue
        if n in m.funcs:
            reach.add(n)
            body = m.funcs[n]['body']
            if body:
                for ln in body:
                    for mm in gre.finditer(ln):
                        work.append(unq(mm.group(1)))
        elif n in m.globals:
            gl_reach.add(n)
            g = m.globals[n]
            stack = [g['init'], g['alias']]
            while stack:
                c = stack.pop()
                if c is None:
                    continue
                if c.k == 'global':
                    work.append(c.v)
                elif c.k in ('agg',):
                    stack.extend(c.v)
                elif c.k == 'cast':
                    stack.append(c.x)
                elif c.k == 'gep':
                    stack.extend(c.x)
                elif c.k in ('binop', 'icmp', 'select'):
                    stack.extend(c.x)
    # translate functions
    bodies = []
    protos = []
    dummy = FuncTx(m, em, dict(name='_', params=[], ret=VOID, va=False, body=[]))
    for n in m.forder:
        if n not in reach:
            continue
        f = m.funcs[n]
        if n.startswith('llvm.'):
            continue
        if f['body'] is None:
            params = ', '.join(em.ct(t) for t, pn in f['params'])
            if f['va']:
                params = params + ', ...' if params else '...'
            protos.append(('extern', n, '%s %s(%s);' % (em.ct(f['ret']), m.csym(n), params or 'void')))
            named = ', '.join('%s a%d' % (em.ct(t), i) for i, (t, pn) in enumerate(f['params']))
            if f['va']:
                named = named + ', ...' if named else '...'
            protos.append(('extern', n, '#define FSV_DEF_%s(...) %s %s(%s) __VA_ARGS__' % (
                m.csym(n), em.ct(f['ret']), m.csym(n), named or 'void')))
            continue
        tx = FuncTx(m, em, f)
        try:
            hdr, body = tx.translate()
        except Exception as e:
            raise RuntimeError('in function %s: %s' % (n, e)) from e
        static = '' if n in roots or m.opts.get('nostatic') else 'static '
        protos.append(('def', n, static + hdr + ';'))
        bodies.append(static + hdr + '\n{\n' + '\n'.join(body) + '\n}\n')
    if getattr(m, 'need_pow', False) and not any(n == 'pow' for (k_, n, l_) in protos):
        protos.append(('extern', 'pow', 'fsv_f64 fsvx_pow(fsv_f64, fsv_f64);'))
        protos.append(('extern', 'pow', '#define FSV_DEF_fsvx_pow(...) fsv_f64 fsvx_pow(fsv_f64 a0, fsv_f64 a1) __VA_ARGS__'))
    # globals
    gdecl = []
    gdef = []
    for n in m.gorder:
        if n not in gl_reach:
            continue
        g = m.globals[n]
        if g['alias'] is not None:
            tgt = g['alias']
            while tgt.k == 'cast':
                tgt = tgt.x
            m.rename[n] = m.csym(tgt.v)
            continue
    for n in m.gorder:
        if n not in gl_reach:
            continue
        g = m.globals[n]
        if g['alias'] is not None:
            continue
        ct = em.ct(g['type'])
        if g['ext'] or g['init'] is None:
            gdecl.append('extern %s %s;' % (ct, m.csym(n)))
            gdecl.append('#define FSV_EXTVAR_%s(...) %s %s __VA_ARGS__;' % (m.csym(n), ct, m.csym(n)))
        else:
            gdecl.append('static %s %s;' % (ct, m.csym(n)))
            init = m.cinit(g['init'], dummy)
            gdef.append('static %s %s = %s;' % (ct, m.csym(n), init))
    types = em.define_all_types()
    ftd = em.func_typedefs()
    # function typedefs may need struct types by value in signatures -> after struct defs; but structs may
    # hold function pointers -> forward declare function typedef names impossible in C; emit typedefs first
    # using only pointers to (forward declared) structs where possible.
    o = []
    o.append(PRELUDE)
    o.extend(em.forward_decls())
    for key, (nm, t) in m.lits.items():
        o.append('struct %s;' % nm)
    for key, (nm, t) in m.arrs.items():
        o.append('struct %s;' % nm)
    # try: struct defs that do not mention F-types first, then typedefs, then the rest
    fre = re.compile(r'\bF\d+\b')
    simple = [d for d in types if not fre.search(d)]
    other = [d for d in types if fre.search(d)]
    # typedefs returning/taking structs by value need complete types only at call/def time in C (incomplete
    # types are fine in function declarators), so typedefs can go before struct definitions.
    o.extend(ftd)
    # but struct definitions must be ordered among themselves (already are)
    o.extend(types)
    o.append('')
    for kind, n, line in protos:
        o.append(line)
    o.extend(gdecl)
    o.extend(gdef)
    o.append('')
    o.extend(bodies)
    o.append('#include "rt_model.h"')
    out.write('\n'.join(o))
    root_protos = [line for kind, n, line in protos if kind == 'def' and n in roots]
    return dict(functions=sorted(n for n in reach if n in m.funcs and m.funcs[n]['body'] is not None and not n.startswith('llvm.')),
                externals=sorted(n for n in reach if n in m.funcs and m.funcs[n]['body'] is None and not n.startswith('llvm.')),
                n_defined=len(bodies), root_protos=root_protos)


def debug_table(ll_text, c_text):
    """{c_line: [file, line, function]} for every C line carrying a /*@D<id>*/ marker"""
    md = {}
    for m in re.finditer(r'^!(\d+) = (?:distinct )?!(\w+)\((.*)\)$', ll_text, re.M):
        md[m.group(1)] = (m.group(2), m.group(3))

    def field(body, name):
        mm = re.search(r'\b%s: (!?"?[^,"]*"?)' % name, body)
        return mm.group(1) if mm else None

    def resolve(i):
        kind, body = md.get(i, (None, ''))
        if kind != 'DILocation':
            return None
        line = field(body, 'line')
        sc = (field(body, 'scope') or '')[1:]
        fn, fl = None, None
        seen = 0
        while sc in md and seen < 50:
            seen += 1
            k, b = md[sc]
            if k == 'DISubprogram':
                fn = (field(b, 'linkageName') or field(b, 'name') or '').strip('"')
                f = (field(b, 'file') or '')[1:]
                if f in md:
                    fl = (field(md[f][1], 'filename') or '').strip('"')
                break
            if fl is None and k in ('DILexicalBlock', 'DILexicalBlockFile'):
                f = (field(b, 'file') or '')[1:]
                if f in md:
                    fl = (field(md[f][1], 'filename') or '').strip('"')
            sc = (field(b, 'scope') or '')[1:]
        return [fl, int(line) if line and line.isdigit() else 0, fn]

    out = {}
    for n, ln in enumerate(c_text.split('\n'), 1):
        mm = re.search(r'/\*@D(\d+)\*/', ln)
        if mm:
            r = resolve(mm.group(1))
            if r:
                out[n] = r
    return out


def main():
    import argparse
    ap = argparse.ArgumentParser()
    ap.add_argument('ll')
    ap.add_argument('-o', required=True)
    ap.add_argument('--root', action='append', default=[])
    ap.add_argument('--check-nsw', action='store_true')
    ap.add_argument('--header')
    ap.add_argument('--info')
    ap.add_argument('--dbgmap')
    a = ap.parse_args()
    ll_text = open(a.ll).read()
    m = Module(ll_text, dict(check_nsw=a.check_nsw))
    roots = a.root or [n for n in m.forder if m.funcs[n]['body'] is not None and n.startswith('fsv_')]
    with open(a.o, 'w') as f:
        info = emit_module(m, roots, f)
    if a.header:
        with open(a.header, 'w') as f:
            f.write('#include <stdint.h>\n#include <stddef.h>\n#include "fsv_harness.h"\n' + '\n'.join(info['root_protos']) + '\n')
    if a.dbgmap:
        import json
        with open(a.dbgmap, 'w') as f:
            json.dump(debug_table(ll_text, open(a.o).read()), f)
    if a.info:
        import json
        with open(a.info, 'w') as f:
            json.dump(dict(functions=info['functions'], externals=info['externals']), f)
    sys.stderr.write('translated %d functions\n' % info['n_defined'])


if __name__ == '__main__':
    main()
