TECH = 'bounded symbolic execution of the real code: clang-14 IR of the library templates -> own IR->C translator -> cbmc 6.11 (SAT; cvc5 fallback), unwinding assertions, witness twin, native replay'
NOTE = ('bounded: sizes/unwindings per query in the evidence file; trusted base = clang IR generation, tools/ll2c.py, rt/rt_model.h stubs, cbmc/cvc5; '
        'translation re-validated natively on every run; configuration (tables, base levels, masks) concrete per query, values symbolic')
CHECKS = {
 'C04': dict(text='For every finite binary64 elevation field on each listed grid configuration (real profile grids N<=5 quick / N<=6 thorough; tables dumped from the real raster/mesh classes), '
                  'single_flow_router::apply_seq yields exactly a steepest-descent receiver; decided by SAT/SMT over the translated real code, counter-examples replayed natively.',
             note=NOTE, technique=TECH),
 'C05': dict(text='For every finite binary64 elevation field on each listed configuration, multi_flow_router::apply yields exactly the unmasked strictly lower neighbours as receivers (each once, neighbour order, grid distance) and a single self receiver otherwise; also after a second application on the same graph object. '
                  'Weight clause: only the NaN-weights finding is demonstrated (counter-example replayed natively); the numeric weight formula is not claimed at binary64 (the divider equivalence query did not finish: 15 min, cvc5).',
             note=NOTE + '; traversal-order computations called at the end of apply are cut (decided in C06)', technique=TECH),
 'C11': dict(text='Part (a) only: for every range start, length <= RANGE and min block size <= MINMAX and each pool size 1..16, thread_pool::blocks yields non-empty, contiguous, disjoint blocks covering the range, at most pool-size many, without division by zero. '
                  'Parts (b) protocol/deadlock and (c) memory-model race are not decided by this check (see DESIGN.md).',
             note=NOTE, technique=TECH),
 'C13': dict(text='Part (i) only: for EVERY binary64 slope exponent n, set_slope_exp takes the linear (direct solve) path exactly when |n-1| <= DBL_EPSILON and rejects every other exponent on multiple-direction graphs (this is also the rejection clause of C12). '
                  'Parts (ii)/(iii) (residual of the discrete equation) are not decided: the binary64 equivalence queries gave no verdict (cvc5/SAT, 200-500 s, 3-node chain).',
             note=NOTE, technique=TECH),
}
NOT_APPLICABLE = {}
