TECH = 'bounded symbolic execution of the real code: clang-14 IR of the library templates -> own IR->C translator -> cbmc 6.11 (SAT; cvc5 fallback), unwinding assertions, witness twin, native replay'
NOTE = ('bounded: sizes/unwindings per query in the evidence file; trusted base = clang IR generation, tools/ll2c.py, rt/rt_model.h stubs, cbmc/cvc5; '
        'translation re-validated natively on every run; configuration (tables, base levels, masks) concrete per query, values symbolic')
CHECKS = {
 'C04': dict(text='For every finite binary64 elevation field on each listed grid configuration (real profile grids N<=5 quick / N<=6 thorough; tables dumped from the real raster/mesh classes), '
                  'single_flow_router::apply_seq yields exactly a steepest-descent receiver; decided by SAT/SMT over the translated real code, counter-examples replayed natively.',
             note=NOTE, technique=TECH),
 'C05': dict(text='For every finite binary64 elevation field on each listed configuration, multi_flow_router::apply yields exactly the unmasked strictly lower neighbours as receivers (each once, neighbour order, grid distance) and a single self receiver otherwise; also after a second application on the same graph object. '
                  'Weight clause: only the NaN-weights finding is demonstrated (counter-example replayed natively); the numeric weight formula is not claimed at binary64 (the divider equivalence query did not finish: 15 min, cvc5).',
             note=NOTE + '; traversal-order computations called at the end of apply are cut (decided in C06)', technique=TECH),
 'C11': dict(text='(a) for every range start, length <= RANGE and min block size <= MINMAX and each pool size 1..16, thread_pool::blocks yields non-empty, contiguous, disjoint blocks covering the range, at most pool-size many, no division by zero (cbmc over the translated class). '
                  '(c) the publish/consume handshake of one run_blocks round is free of data races in the C++ memory model: the four memory orders are read from the LLVM IR of the real code on every run, z3 decides happens-before over a 10-event skeleton, a reported race is confirmed with ThreadSanitizer on the real pool. '
                  '(b) lost wake-ups / deadlock over pause, resume, resize, stop is NOT decided.',
             note=NOTE + '; (c): the event skeleton is hand-written in tools/pool_hb.py and anchored to the IR by source text (skeleton change -> check error)', technique=TECH + '; part (c): z3 happens-before query over memory orders extracted from the IR'),
 'C08': dict(text='cbmc bounds/pointer/division-by-zero/shift instrumentation over the translated real code of the units the other checks use (node iterators on real profile grids, single and multiple direction routers on symbolic elevation fields, worker-pool partition arithmetic, eroder setters), inside those harnesses\' bounds; '
                  'every reported failure is confirmed by replaying the counter-example against the real code under ASan+UBSan before it counts.',
             note=NOTE + '; not decided: use-after-scope through references to temporaries, uninitialised reads, signed overflow, data races, and all units the encoder could not reach (sink resolvers, basin graph, diffusion, mesh, snapshots)', technique=TECH),
 'C03': dict(text='On 6 concrete graph structures (chains, trees, two outlets, DAGs with 2 and 3 receivers per node) with symbolic finite binary64 source, cell areas and partition weights: each of the four accumulate overloads returns, bit for bit, acc_i = area_i*src_i + sum over donors acc_d*w(d->i) evaluated along the top-down sweep; scalar source == uniform array; stale output content does not leak. '
                  'Conservation and the lower bound are exact-arithmetic consequences and are not decided in binary64.',
             note=NOTE + '; graph structure concrete per query; decided by cvc5 (identical binary64 terms are shared, so the equality is structural)', technique=TECH),
 'C16': dict(text='Copy step only: for symbolic contents of every table of a source graph implementation (N<=4 quick, <=6 thorough; single and multiple direction), flow_snapshot::_save makes the snapshot graph expose the same receivers, counts, distances, weights, all donor columns, depth-first and breadth-first orders and levels, mask and base levels; the elevation snapshot equals the elevation. '
                  'Refusal of mutating calls on snapshot graphs and sequencing of snapshots inside update_routes are not decided.',
             note=NOTE, technique=TECH),
 'C17': dict(text='Part: on real profile grids every border-status combination (4x4, incl. rejection of asymmetric looped borders through the throw model), every status filter and both directions: '
                  'nodes_indices yields exactly the matching indices in increasing / decreasing order. All inputs are concrete per query (exhaustive enumeration of a finite space through the encoder). '
                  'Raster corner precedence, override maps, the mesh and the default base levels are NOT covered (symbolic-status raster construction: no verdict in 5 min).',
             note=NOTE, technique=TECH + ' (inputs enumerated concretely per query)'),
 'C12': dict(text='On 4 concrete graph structures with symbolic finite values of bounded magnitude, per node: erosion is exactly zero at self receivers (outlets, pits; base-level and masked nodes are self receivers after routing) and at nodes not above the post-erosion level of their lowest receiver (lakes); a slope exponent with |n-1| > epsilon is rejected on multiple-direction graphs for every binary64 n. '
                  'The two inequality clauses (not negative beyond rounding; not lowered below the lowest receiver) are NOT decided in binary64 (no verdict in 280 s); in exact arithmetic they follow from C13(ii).',
             note=NOTE + '; linear path only (Newton loop has no bound with pow as an uninterpreted stub)', technique=TECH),
 'C13': dict(text='(i) for EVERY binary64 slope exponent n, set_slope_exp takes the linear (direct solve) path exactly when |n-1| <= DBL_EPSILON and rejects every other exponent on multiple-direction graphs. '
                  '(ii) linear case: on concrete graph structures (chain, tree, two outlets, multiple-direction DAG) with symbolic elevation, drainage area, erodibility (scalar/array), time step, weights and distances, per node the returned erosion equals bit for bit old - new, where new is the direct solution of the backward-Euler discrete equation (receivers not higher than the node, limited at the lowest new receiver level, zero in lakes), area exponent 1 exact and 0.5 through pow as an uninterpreted function whose arguments are asserted. '
                  '(iii) Newton iteration for n != 1: not decided.',
             note=NOTE + '; per-node queries; deepest nodes and nodes with two receivers only in the thorough tier (19 min per query)', technique=TECH),
}
NOT_APPLICABLE = {
 'C01': 'sink resolvers (priority-flood with std::priority_queue, MST resolver with basin graph) have heap shape and control flow that depend on the symbolic elevations; the IR->C->cbmc encoding of the STL/xtensor code explodes already for the DFS/BFS sub-steps at N=3 (5M variables, >10 min); no verdict reachable, see DESIGN.md 5',
 'C02': 'same units as C01 (pflood / MST resolvers): no encoding within reach, see DESIGN.md 5',
 'C06': 'unit units/graph.cpp + harness/c06.c built (symbolic receiver forest/DAG with rank witness): N=3 needs 5 M variables; with loop bound N+2 an unwinding assertion fails spuriously (cbmc loop counters), with bound 10 no verdict in 40 min; not claimed',
 'C07': 'unit units/raster_nb.cpp + harness/c07.c built on the fixed-size accessor layer with a symbolic node index: symbolic execution 59 s, then cbmc is killed at 31-62 GB while converting the formula (symbolic index into the per-code offset vectors); no verdict reachable',
 'C09': 'needs two complete update_routes histories with sink resolvers on one object; the composed unit is out of reach of the encoder (see C01), see DESIGN.md 5',
 'C10': 'interleavings: cbmc threads over the translated pool/xtensor code are out of reach; only the sequentialised apply_par path is checked (inside C04); not claimed as C10',
 'C14': 'unit units/adi.cpp and an order-exact reference harness/c14.c were built; cbmc\'s SMT back end aborts (flatten2bv of a non-constant FPA-encoded float: xtensor copies doubles byte-wise through untyped pointers) and SAT cannot prove bit-for-bit floating-point equalities (DESIGN.md 3.2); no verdict reachable',
 'C15': 'basin graph / Kruskal / Boruvka sort and union symbolic weights: data-dependent std::sort and vectors; out of reach of the encoder (see C01)',
 'C18': 'trimesh construction hashes symbolic vertex pairs into std::unordered_map; heap shape depends on symbolic data; out of reach',
 'C19': 'unit + harness/c19.c built (symbolic single-direction state and mask): N=3 gives no verdict in 150 s (conditional push_back, unordered_set look-ups with symbolic keys); not claimed',
 'C20': 'operator sequences dispatch virtually over std::vector<std::shared_ptr<...>> and build std::string keys; beyond the translator/stub set in this round',
}
