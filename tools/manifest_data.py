TECH = 'bounded symbolic execution of the real code: clang-14 IR of the library templates -> own IR->C translator -> cbmc 6.11 (SAT; cvc5 fallback), unwinding assertions, witness twin, native replay'
NOTE = ('bounded: sizes/unwindings per query in the evidence file; trusted base = clang IR generation, tools/ll2c.py, rt/rt_model.h stubs, cbmc/cvc5; '
        'translation re-validated natively on every run; configuration (tables, base levels, masks) concrete per query, values symbolic')
CHECKS = {
 'C04': dict(text='For every finite binary64 elevation field on each listed grid configuration (real profile grids N<=5 quick / N<=6 thorough; tables dumped from the real raster/mesh classes), '
                  'single_flow_router::apply_seq yields exactly a steepest-descent receiver; decided by SAT/SMT over the translated real code, counter-examples replayed natively.',
             note=NOTE, technique=TECH),
}
NOT_APPLICABLE = {}
