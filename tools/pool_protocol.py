#!/usr/bin/env python3
"""C11(b): pause / resume / run_blocks protocol of the worker pool: no lost wake-up, no lost job.

What comes from the real code (LLVM IR of /repo's thread_pool_inl.hpp, regenerated on every run):
  * resume(): whether m_cv_m is locked before m_cv.notify_all() is called, and whether resume() ends with wait();
  * pause():  that it starts with wait(), publishes the pause jobs, and spins on m_paused_count;
  * pause job: the order  lock(m_cv_m) ; ++m_paused_count ; m_cv.wait ; --m_paused_count ; unlock;
  * worker loop: load flag ; run job ; store 0.
The synchronisation calls (pthread_mutex_lock/unlock, condition_variable::wait/notify_all, atomic rmw/load/store) are
located in the IR and attributed to source functions through the inlining chain of their debug locations.  If the code no
longer matches the skeleton the extraction fails (check error), it never passes silently.

What the solver decides: a bounded model (z3, K scheduler steps, W workers) of the interleavings of
   caller: pause() ; resume() ; run_blocks()      workers: the worker loop
with mutex, condition variable (no spurious wake-ups granted), atomic counter and flags.  Queries:
   DEADLOCK: a reachable state in which the caller has not finished and no thread can take a step;
   LOST JOB: the caller finishes run_blocks although some worker's block was not executed exactly once.
A counter-example schedule is replayed natively by a stress program on the real pool under a watchdog.
"""
import json
import os
import re
import subprocess
import sys
import time


def ir_events(repo, workdir):
    src = os.path.join(os.path.dirname(os.path.abspath(__file__)), '..', 'units', 'pool_sync.cpp')
    ll = os.path.join(workdir, 'pool_sync_p.ll')
    p = subprocess.run(['clang++-14', '-std=c++17', '-O1', '-DNDEBUG', '-fno-vectorize', '-fno-unroll-loops', '-w', '-gline-tables-only',
                        '-I' + os.path.join(repo, 'include'), '-S', '-emit-llvm', src, '-o', ll], capture_output=True, text=True, timeout=300)
    if p.returncode != 0:
        raise RuntimeError('clang failed: ' + p.stderr[-2000:])
    text = open(ll).read()
    md = {}
    for m in re.finditer(r'^!(\d+) = (?:distinct )?!(\w+)\((.*)\)$', text, re.M):
        md[m.group(1)] = (m.group(2), m.group(3))
    inl = os.path.join(repo, 'include', 'fastscapelib', 'utils', 'impl', 'thread_pool_inl.hpp')
    srclines = open(inl).read().split('\n')
    # source ranges of the member functions (by signature lines)
    fn_of_line = {}
    cur = None
    for i, l in enumerate(srclines, 1):
        m = re.match(r'\s*(?:void|bool|std::size_t|T)\s+thread_pool<T>::(\w+)\(', l) or re.match(r'\s*thread_pool<T>::(~?\w+)\(', l)
        if m:
            cur = m.group(1)
        fn_of_line[i] = cur

    def frames(i):
        out = []
        for _ in range(40):
            if i is None or i not in md or md[i][0] != 'DILocation':
                break
            b = md[i][1]
            line = int(re.search(r'line: (\d+)', b).group(1))
            sc = re.search(r'scope: !(\d+)', b).group(1)
            fl = None
            for _ in range(50):
                if sc not in md:
                    break
                f = re.search(r'file: !(\d+)', md[sc][1])
                if f and f.group(1) in md:
                    fl = re.search(r'filename: "([^"]*)"', md[f.group(1)][1]).group(1)
                    break
                s2 = re.search(r'scope: !(\d+)', md[sc][1])
                if not s2:
                    break
                sc = s2.group(1)
            out.append((fl, line))
            ia = re.search(r'inlinedAt: !(\d+)', b)
            i = ia.group(1) if ia else None
        return out

    events = []   # (ir function, kind, [source member functions from innermost to outermost], innermost pool line)
    curf = None
    all_lines = text.split('\n')
    for li, ln in enumerate(all_lines):
        if ln.startswith('define '):
            curf = re.search(r'@("?[^"( ]+"?)\(', ln).group(1)
            continue
        kind = None
        if 'pthread_mutex_lock' in ln and 'call' in ln:
            kind = 'lock'
        elif 'pthread_mutex_unlock' in ln and 'call' in ln:
            kind = 'unlock'
        elif '_ZNSt18condition_variable4waitE' in ln and ('call' in ln or 'invoke' in ln):
            kind = 'cv_wait'
        elif '_ZNSt18condition_variable10notify_allEv' in ln and ('call' in ln or 'invoke' in ln):
            kind = 'notify_all'
        elif re.search(r'atomicrmw add', ln):
            kind = 'inc'
        elif re.search(r'atomicrmw sub', ln):
            kind = 'dec'
        elif re.search(r'load atomic i8', ln):
            kind = 'load_flag_or_stop'
        elif re.search(r'store atomic i8 1', ln):
            kind = 'store1'
        elif re.search(r'store atomic i8 0', ln):
            kind = 'store0'
        elif re.search(r'load atomic i64', ln):
            kind = 'load_count'
        elif re.search(r'(call|invoke) .*@_ZN12fastscapelib11thread_poolI\w+E9run_tasksEv', ln):
            kind = 'store1'          # out-of-line run_tasks(): publishes the jobs
        elif re.search(r'(call|invoke) .*@_ZNK12fastscapelib11thread_poolI\w+E(4wait|9was_empty)Ev', ln):
            kind = 'load_flag_or_stop'   # out-of-line wait()/was_empty()
        if not kind:
            continue
        m = re.search(r'!dbg !(\d+)', ln)
        if not m and li + 1 < len(all_lines):      # invoke: the debug location sits on the continuation line
            m = re.search(r'!dbg !(\d+)', all_lines[li + 1])
        fr = frames(m.group(1)) if m else []
        pool = [(fn_of_line.get(l), l) for (f, l) in fr if f and f.endswith('thread_pool_inl.hpp')]
        if pool:
            events.append((curf, kind, [p[0] for p in pool], pool[0][1]))
    return events, srclines


def skeleton(events):
    """booleans of the protocol skeleton; raises if the code does not match the expected shape"""
    def seq(irfn_sub):
        return [(k, fns, l) for (f, k, fns, l) in events if irfn_sub in f]
    res = seq('fsv_pool_resume')
    kinds = [k for (k, fns, l) in res if 'resume' in fns]
    if 'notify_all' not in kinds:
        raise RuntimeError('resume(): no notify_all found in the IR: %s' % res)
    i_not = kinds.index('notify_all')
    r_lock = 'lock' in kinds[:i_not]
    r_wait = any(k == 'load_flag_or_stop' for k in kinds[i_not + 1:])
    pau = seq('fsv_pool_pause')
    pk = [k for (k, fns, l) in pau if 'pause' in fns]
    if not ('store1' in pk and 'load_count' in pk and 'load_flag_or_stop' in pk):
        raise RuntimeError('pause(): skeleton mismatch (expected wait ; publish jobs ; spin on m_paused_count): %s' % pk)
    p_wait_first = pk.index('load_flag_or_stop') < pk.index('store1')
    job = [k for (f, k, fns, l) in events if 'init_pause_jobs' in fns and k in ('lock', 'unlock', 'inc', 'dec', 'cv_wait')]
    # unique_lock's destructor unlock may be emitted on several paths; keep the first occurrence order
    order = []
    for k in job:
        if k not in order:
            order.append(k)
    if order[:4] != ['lock', 'inc', 'cv_wait', 'dec'] or 'unlock' not in order:
        raise RuntimeError('pause job: skeleton mismatch (expected lock ; ++count ; cv.wait ; --count ; unlock): %s' % order)
    wk = [k for (f, k, fns, l) in events if 'start' in fns and ('_M_run' in f or 'start' in f) and k in ('load_flag_or_stop', 'store0')]
    if 'store0' not in wk or wk.index('store0') == 0:
        raise RuntimeError('worker loop: skeleton mismatch (expected load flag ; job ; store 0): %s' % wk)
    return dict(resume_locks_mutex_before_notify=r_lock, resume_waits_for_workers=r_wait, pause_waits_first=p_wait_first)


def decide(sk, W=2, K=None):
    import z3
    K = K or (26 + 14 * W)
    R_LOCK, R_WAIT, P_WAIT = sk['resume_locks_mutex_before_notify'], sk['resume_waits_for_workers'], sk['pause_waits_first']
    # caller program counters
    C = ['p_wait', 'p_publish', 'p_spin', 'r_lock', 'r_unlock', 'r_notify', 'r_wait', 'b_publish', 'b_wait', 'END']
    ci = {n: i for i, n in enumerate(C)}
    # worker program counters
    WK = ['idle', 'pj_lock', 'pj_inc', 'pj_wait', 'pj_woken', 'pj_dec', 'pj_unlock', 'pj_clear', 'uj_run', 'uj_clear']
    wi = {n: i for i, n in enumerate(WK)}
    s = z3.Solver()
    I = lambda name, k: z3.Int('%s_%d' % (name, k))
    def st(k):
        return dict(cpc=I('cpc', k), mtx=I('mtx', k), cnt=I('cnt', k), jobs=I('jobs', k),   # jobs: 0 pause jobs, 1 user blocks
                    wpc=[I('wpc%d' % w, k) for w in range(W)], flag=[I('flag%d' % w, k) for w in range(W)],
                    waiting=[I('waiting%d' % w, k) for w in range(W)], notified=[I('notified%d' % w, k) for w in range(W)],
                    done=[I('done%d' % w, k) for w in range(W)], kind=[I('kind%d' % w, k) for w in range(W)])
    S = [st(k) for k in range(K + 1)]
    s0 = S[0]
    s.add(s0['cpc'] == (ci['p_wait'] if P_WAIT else ci['p_publish']), s0['mtx'] == -1, s0['cnt'] == 0, s0['jobs'] == 0)
    for w in range(W):
        s.add(s0['wpc'][w] == wi['idle'], s0['flag'][w] == 0, s0['waiting'][w] == 0, s0['notified'][w] == 0, s0['done'][w] == 0, s0['kind'][w] == 0)

    def same(a, b, except_=()):
        cs = []
        for key in ('cpc', 'mtx', 'cnt', 'jobs'):
            if key not in except_:
                cs.append(b[key] == a[key])
        for key in ('wpc', 'flag', 'waiting', 'notified', 'done', 'kind'):
            for w in range(W):
                if (key, w) not in except_ and key not in except_:
                    cs.append(b[key][w] == a[key][w])
        return cs

    def caller_steps(a, b):
        allzero = z3.And([a['flag'][w] == 0 for w in range(W)])
        steps = []
        def nxt_after_notify():
            return ci['r_wait'] if R_WAIT else ci['b_publish']
        steps.append(z3.And(a['cpc'] == ci['p_wait'], allzero, b['cpc'] == ci['p_publish'], *same(a, b, ('cpc',))))
        steps.append(z3.And(a['cpc'] == ci['p_publish'], b['cpc'] == ci['p_spin'], b['jobs'] == 0, *[b['flag'][w] == 1 for w in range(W)], *same(a, b, ('cpc', 'jobs', 'flag'))))
        steps.append(z3.And(a['cpc'] == ci['p_spin'], a['cnt'] == W, b['cpc'] == (ci['r_lock'] if R_LOCK else ci['r_notify']), *same(a, b, ('cpc',))))
        steps.append(z3.And(a['cpc'] == ci['r_lock'], a['mtx'] == -1, b['mtx'] == 100, b['cpc'] == ci['r_unlock'], *same(a, b, ('cpc', 'mtx'))))
        steps.append(z3.And(a['cpc'] == ci['r_unlock'], b['mtx'] == -1, b['cpc'] == ci['r_notify'], *same(a, b, ('cpc', 'mtx'))))
        steps.append(z3.And(a['cpc'] == ci['r_notify'], b['cpc'] == nxt_after_notify(),
                            *[b['notified'][w] == z3.If(a['waiting'][w] == 1, 1, a['notified'][w]) for w in range(W)], *same(a, b, ('cpc', 'notified'))))
        steps.append(z3.And(a['cpc'] == ci['r_wait'], allzero, b['cpc'] == ci['b_publish'], *same(a, b, ('cpc',))))
        steps.append(z3.And(a['cpc'] == ci['b_publish'], b['cpc'] == ci['b_wait'], b['jobs'] == 1, *[b['flag'][w] == 1 for w in range(W)], *same(a, b, ('cpc', 'jobs', 'flag'))))
        steps.append(z3.And(a['cpc'] == ci['b_wait'], allzero, b['cpc'] == ci['END'], *same(a, b, ('cpc',))))
        return steps

    def worker_steps(a, b, w):
        ex = lambda *keys: same(a, b, tuple(keys))
        t = []
        t.append(z3.And(a['wpc'][w] == wi['idle'], a['flag'][w] == 1, b['kind'][w] == a['jobs'],
                        b['wpc'][w] == z3.If(a['jobs'] == 0, wi['pj_lock'], wi['uj_run']), *ex(('wpc', w), ('kind', w))))
        t.append(z3.And(a['wpc'][w] == wi['pj_lock'], a['mtx'] == -1, b['mtx'] == w, b['wpc'][w] == wi['pj_inc'], *ex(('wpc', w), 'mtx')))
        t.append(z3.And(a['wpc'][w] == wi['pj_inc'], b['cnt'] == a['cnt'] + 1, b['wpc'][w] == wi['pj_wait'], *ex(('wpc', w), 'cnt')))
        t.append(z3.And(a['wpc'][w] == wi['pj_wait'], b['mtx'] == -1, b['waiting'][w] == 1, b['notified'][w] == 0, b['wpc'][w] == wi['pj_woken'], *ex(('wpc', w), 'mtx', ('waiting', w), ('notified', w))))
        t.append(z3.And(a['wpc'][w] == wi['pj_woken'], a['notified'][w] == 1, a['mtx'] == -1, b['mtx'] == w, b['waiting'][w] == 0, b['notified'][w] == 0,
                        b['wpc'][w] == wi['pj_dec'], *ex(('wpc', w), 'mtx', ('waiting', w), ('notified', w))))
        t.append(z3.And(a['wpc'][w] == wi['pj_dec'], b['cnt'] == a['cnt'] - 1, b['wpc'][w] == wi['pj_unlock'], *ex(('wpc', w), 'cnt')))
        t.append(z3.And(a['wpc'][w] == wi['pj_unlock'], b['mtx'] == -1, b['wpc'][w] == wi['pj_clear'], *ex(('wpc', w), 'mtx')))
        t.append(z3.And(a['wpc'][w] == wi['pj_clear'], b['flag'][w] == 0, b['wpc'][w] == wi['idle'], *ex(('wpc', w), ('flag', w))))
        t.append(z3.And(a['wpc'][w] == wi['uj_run'], b['done'][w] == a['done'][w] + 1, b['wpc'][w] == wi['uj_clear'], *ex(('wpc', w), ('done', w))))
        t.append(z3.And(a['wpc'][w] == wi['uj_clear'], b['flag'][w] == 0, b['wpc'][w] == wi['idle'], *ex(('wpc', w), ('flag', w))))
        return t

    def enabled(a):
        """some state-changing step is possible"""
        x = z3.Int('x')
        conds = []
        allzero = z3.And([a['flag'][w] == 0 for w in range(W)])
        conds.append(z3.And(a['cpc'] == ci['p_wait'], allzero))
        conds.append(a['cpc'] == ci['p_publish'])
        conds.append(z3.And(a['cpc'] == ci['p_spin'], a['cnt'] == W))
        conds.append(z3.And(a['cpc'] == ci['r_lock'], a['mtx'] == -1))
        conds.append(a['cpc'] == ci['r_unlock'])
        conds.append(a['cpc'] == ci['r_notify'])
        conds.append(z3.And(a['cpc'] == ci['r_wait'], allzero))
        conds.append(a['cpc'] == ci['b_publish'])
        conds.append(z3.And(a['cpc'] == ci['b_wait'], allzero))
        for w in range(W):
            conds.append(z3.And(a['wpc'][w] == wi['idle'], a['flag'][w] == 1))
            conds.append(z3.And(a['wpc'][w] == wi['pj_lock'], a['mtx'] == -1))
            conds.append(z3.And(a['wpc'][w] == wi['pj_woken'], a['notified'][w] == 1, a['mtx'] == -1))
            for nme in ('pj_inc', 'pj_wait', 'pj_dec', 'pj_unlock', 'pj_clear', 'uj_run', 'uj_clear'):
                conds.append(a['wpc'][w] == wi[nme])
        return z3.Or(conds)

    for k in range(K):
        a, b = S[k], S[k + 1]
        moves = caller_steps(a, b)
        for w in range(W):
            moves += worker_steps(a, b, w)
        stutter = z3.And(z3.Not(enabled(a)), *same(a, b))
        s.add(z3.Or(moves + [stutter]))
    t0 = time.time()
    out = {}
    # DEADLOCK
    s.push()
    s.add(z3.Or([z3.And(S[k]['cpc'] != ci['END'], z3.Not(enabled(S[k]))) for k in range(K + 1)]))
    r = s.check()
    out['deadlock'] = str(r)
    if r == z3.sat:
        m = s.model()
        tr = []
        for k in range(K + 1):
            tr.append(dict(caller=C[m.eval(S[k]['cpc']).as_long()], mutex=m.eval(S[k]['mtx']).as_long(), paused_count=m.eval(S[k]['cnt']).as_long(),
                           workers=[WK[m.eval(S[k]['wpc'][w]).as_long()] for w in range(W)], flags=[m.eval(S[k]['flag'][w]).as_long() for w in range(W)],
                           waiting=[m.eval(S[k]['waiting'][w]).as_long() for w in range(W)]))
            if k and tr[-1] == tr[-2]:
                break
        out['deadlock_trace'] = tr
    s.pop()
    # LOST JOB
    s.push()
    s.add(z3.Or([z3.And(S[k]['cpc'] == ci['END'], z3.Or([S[k]['done'][w] != 1 for w in range(W)])) for k in range(K + 1)]))
    r = s.check()
    out['lost_job'] = str(r)
    if r == z3.sat:
        m = s.model()
        tr = []
        for k in range(K + 1):
            tr.append(dict(caller=C[m.eval(S[k]['cpc']).as_long()], workers=[WK[m.eval(S[k]['wpc'][w]).as_long()] for w in range(W)],
                           flags=[m.eval(S[k]['flag'][w]).as_long() for w in range(W)], done=[m.eval(S[k]['done'][w]).as_long() for w in range(W)]))
            if tr[-1]['caller'] == 'END':
                break
        out['lost_job_trace'] = tr
    s.pop()
    # reachability witness: the caller can finish with every block executed exactly once
    s.push()
    s.add(z3.Or([z3.And(S[k]['cpc'] == ci['END'], *[S[k]['done'][w] == 1 for w in range(W)]) for k in range(K + 1)]))
    out['witness_end_reachable'] = str(s.check())
    s.pop()
    out['z3_s'] = round(time.time() - t0, 2)
    out['steps'] = K
    out['workers'] = W
    return out


STRESS = r'''
#include <vector>
#include <cassert>
#include <mutex>
#include <cstdint>
#include <cstdio>
#include <atomic>
#include <thread>
#include <chrono>
#include <cstdlib>
#include "fastscapelib/utils/thread_pool.hpp"
static std::atomic<long> progress{0};
int main() {
  std::thread watchdog([] { long last = -1; for (;;) { std::this_thread::sleep_for(std::chrono::seconds(5)); long p = progress.load();
      if (p == last) { std::printf("HANG after %ld rounds (lost wake-up)\n", p); std::fflush(stdout); std::_Exit(3); } last = p; } });
  watchdog.detach();
  fastscapelib::thread_pool<std::size_t> pool(2);
  std::vector<int> hits(8, 0);
  for (int round = 0; round < 20000; round++) {
    pool.resume();
    for (auto& h : hits) h = 0;
    pool.run_blocks(0, hits.size(), [&](std::size_t, std::size_t a, std::size_t b) { for (std::size_t i = a; i < b; i++) hits[i]++; });
    for (auto h : hits) if (h != 1) { std::printf("LOST JOB in round %d\n", round); std::_Exit(4); }
    pool.pause();
    progress++;
  }
  pool.stop();
  std::printf("ok\n");
  return 0;
}
'''


def stress_replay(repo, workdir):
    src = os.path.join(workdir, 'pool_stress.cpp')
    open(src, 'w').write(STRESS)
    exe = os.path.join(workdir, 'pool_stress')
    p = subprocess.run(['g++', '-std=c++17', '-O1', '-I' + os.path.join(repo, 'include'), src, '-o', exe, '-lpthread'], capture_output=True, text=True, timeout=600)
    if p.returncode != 0:
        return None, 'build failed: ' + p.stderr[-1500:]
    for attempt in range(3):
        try:
            r = subprocess.run([exe], capture_output=True, text=True, timeout=120)
        except subprocess.TimeoutExpired:
            return True, 'stress program did not finish in 120 s (hang)'
        if r.returncode in (3, 4):
            return True, r.stdout[-500:]
    return False, (r.stdout or '')[-300:]


if __name__ == '__main__':
    wd = sys.argv[1] if len(sys.argv) > 1 else '/tmp/pool_protocol'
    os.makedirs(wd, exist_ok=True)
    ev, _ = ir_events(os.environ.get('FSV_REPO', '/repo'), wd)
    sk = skeleton(ev)
    res = {}
    for W in (1, 2):
        res['W%d' % W] = decide(sk, W=W)
    print(json.dumps(dict(skeleton=sk, n_events=len(ev), results=res)))
