#!/bin/bash
# applies every stored seeded change to /repo in turn, runs the quick check of the property it breaks, restores /repo.
# prints one line per seed: <seed> <property> caught|missed|not-claimed|no-apply
cd /verif
CLAIMED=$(python3 -c "import json; print(' '.join(c['property_id'] for c in json.load(open('MANIFEST.json'))['checks']))")
for d in seeded/*/; do
  n=$(basename $d); p=$(python3 -c "import json; print(json.load(open('$d/meta.json'))['breaks_property'])")
  case " $CLAIMED " in *" $p "*) ;; *) echo "$n $p not-claimed"; continue;; esac
  patch=$d/patch.diff; [ -f $d/patch_rebased.diff ] && patch=$d/patch_rebased.diff
  if ! git -C /repo apply --check /verif/$patch 2>/dev/null; then echo "$n $p no-apply"; continue; fi
  git -C /repo apply /verif/$patch
  timeout 1800 ./check $p --tier quick > /tmp/seedrun_$n.log 2>&1; rc=$?
  git -C /repo checkout -- .
  v=$(grep -c "^VIOLATION" /tmp/seedrun_$n.log)
  if [ $rc -eq 1 ] && [ $v -gt 0 ]; then echo "$n $p caught ($v violations)"; else echo "$n $p missed (rc=$rc)"; fi
done
