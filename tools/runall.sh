#!/bin/bash
# run every claimed check's quick tier on the current tree, sequentially; prints wall time and exit code per check
cd /verif
for p in $(python3 -c "import json; print(' '.join(c['property_id'] for c in json.load(open('MANIFEST.json'))['checks']))"); do
  t0=$(date +%s); ./check $p --tier ${1:-quick} > /tmp/runall_$p.log 2>&1; rc=$?; t1=$(date +%s)
  echo "$p rc=$rc wall=$((t1-t0))s $(tail -1 /tmp/runall_$p.log)"
done
